"""C19 (combination half) - the bindings' ingredient combination sums amounts per name and unit, counting each input once.

Engine M over the MIR of the `cooklang-bindings` crate: into_group_quantity, merge_grouped_quantities (with its
Entry::and_modify closure), add_to_ingredient_list, expand_with_ingredients, combine_ingredients_selected.
Strings are abstract identities (only their equality is observable to this code), hash maps are short entry lists
with symbolic key equality (lib/mapmodel.py).  The FFI *view* half of C19 (into_simple_recipe & co.) is not decided."""
import os, json, subprocess, time, re
import scratch, native, mcheck, mir, smt, models, mapmodel
from mir import SV, Agg, Enum, Opaque, OpenAgg, VecVal, MapVal
import c08

KINDS = ["Number", "Range", "Text", "Empty"]


def load_bindings_mir(run, scr, ms):
    t0 = time.time()
    dev = os.environ.get("VERIF_DEV_MIR_B")      # development shortcut only: never set by registered commands
    if dev:
        ms.dump = mir.MirDump(open(os.path.join(dev, "bind-mir.txt")).read())
        ms.decls = mir.TypeDecls(os.path.join(dev, "repo", "bindings", "src"), extra=[("cooklang", os.path.join(dev, "repo", "src"))])
        return
    out = os.path.join(scr.dir, "bind-mir.txt")
    env = dict(os.environ)
    env["CARGO_NET_OFFLINE"] = "true"
    os.utime(os.path.join(scr.repo, "bindings", "src", "lib.rs"))
    with open(out, "w") as o, open(out + ".err", "w") as e:
        p = subprocess.run(["cargo", "+nightly", "rustc", "--offline", "-p", "cooklang-bindings", "--lib", "--target-dir",
                            os.path.join(scr.dir, "mir-target-b"), "--", "-Zunpretty=mir", "-C", "debug-assertions=off", "-C", "overflow-checks=on"],
                           cwd=scr.repo, stdout=o, stderr=e, env=env)
    if p.returncode != 0 or os.path.getsize(out) < 1000:
        raise mir.Unsupported("MIR dump of cooklang-bindings failed (see %s.err)" % out)
    ms.dump = mir.MirDump(open(out).read())
    ms.decls = mir.TypeDecls(os.path.join(scr.repo, "bindings", "src"), extra=[("cooklang", os.path.join(scr.repo, "src"))])
    run.log("MIR dump (bindings): %d functions in %.0fs" % (sum(len(v) for v in ms.dump.fns.values()), time.time() - t0))


class W:
    """one symbolic world: semantics, interpreter, constructors"""

    def __init__(self, ms, prefix):
        self.ms = ms
        self.sem = smt.RealSem(prefix=prefix)
        mods = dict(models.STD_MODELS)
        mods.update(models.MORE_MODELS)
        mods.update(models.VEC_MODELS)
        mods.update(models.RESULT_MODELS)
        self.it = mir.Interp(ms.dump, ms.decls, self.sem, models=mods, max_paths=40000)
        self.decls = ms.decls
        self.vnames = [v for v, _ in self.decls.enums.lookup("Value", "model")]
        self.qnames = [v for v, _ in self.decls.enums["QuantityType"]]
        assert self.vnames == KINDS and self.qnames == KINDS, (self.vnames, self.qnames)
        self.kf = self.decls.structs["GroupedQuantityKey"]
        self.nstr = 0
        it, sem = self.it, self.sem

        def key_eq(it_, k1, k2):
            if isinstance(k1, Agg) and isinstance(k2, Agg) and k1.ty == "GroupedQuantityKey":
                n, u = str(self.kf.index("name")), str(self.kf.index("unit_type"))
                return "(and %s (= %s %s))" % (self.str_eq(k1.fields[n], k2.fields[n]), k1.fields[u].discr.expr, k2.fields[u].discr.expr)
            return self.str_eq(k1, k2)
        it.models.update(mapmodel.mk_map_models(key_eq, prefix=r"(std::collections::)?HashMap::<.*>"))
        ident = models.m_identity
        it.models.update({
            r"^<(std::string::)?String as ToString>::to_string$": ident,
            r"^<str as ToString>::to_string$": ident,
            r"^<(std::string::)?String as Clone>::clone$": ident,
            r"^<(std::string::)?String as Deref>::deref$": ident,
            r"^<GroupedQuantityKey as Clone>::clone$": ident,
            r"^<model::Value as Clone>::clone$": ident,
            r"^<model::Ingredient as Clone>::clone$": ident,
            r"^<std::collections::hash_map::Iter<'_, .*> as Iterator>::for_each::<": models.m_for_each,
            r"^<(std::string::)?String as AddAssign<&str>>::add_assign$": self.m_str_push,
            r"^<f64 as AddAssign<&f64>>::add_assign$": self.m_f64_add_assign,
            r"^Arguments::<'_>::from_str$": models.m_opaque,
            r"^core::slice::<impl \[model::Ingredient\]>::get::<usize>$": self.m_slice_get,
            r"^<&Vec<u32> as IntoIterator>::into_iter$": lambda it_, a, c: models.IterVal(list(mapmodel._val(it_, a[0]).items)),
            r"^<std::slice::Iter<'_, u32> as Iterator>::next$": models.m_iter_next,
            r"^Option::<&?(std::string::)?String>::as_ref$": lambda it_, a, c: mapmodel._val(it_, a[0]),
            r"^Option::<&(std::string::)?String>::unwrap_or$": self.m_unwrap_or,
            r"^Option::<&model::Ingredient>::unwrap$": self.m_unwrap,
        })

    # -- strings: abstract identities
    def string(self, hint):
        self.nstr += 1
        name = "%s_str%d_%s" % (self.sem.prefix, self.nstr, hint)
        self.sem.decls.append("(declare-const %s Int)" % name)
        return SV("strid", name)

    def str_eq(self, a, b):
        ea, eb = self.str_expr(a), self.str_expr(b)
        return "true" if ea == eb else "(= %s %s)" % (ea, eb)

    def str_expr(self, s):
        if isinstance(s, SV) and s.sort == "strid":
            return s.expr
        if isinstance(s, SV) and s.expr == '""':
            return "0"             # the empty string: identity 0 (symbolic strings may or may not equal it)
        if isinstance(s, Opaque) and s.what == "concat":
            raise mir.Unsupported("equality on a concatenated string")
        raise mir.Unsupported("string identity of %r" % (s,))

    def m_str_push(self, it_, a, callee):
        cur = it_.deref(a[0], it_.cur_env)
        env2 = mir.fork_env(it_.cur_env)
        it_.write_ref(a[0], Opaque("concat", [cur, mapmodel._val(it_, a[1])]), env2)
        return [([], Opaque("unit"), "return", None, {"env": env2})]

    def m_f64_add_assign(self, it_, a, callee):
        cur = it_.deref(a[0], it_.cur_env)
        rhs = mapmodel._val(it_, a[1])
        env2 = mir.fork_env(it_.cur_env)
        it_.write_ref(a[0], SV("f64", self.sem.float_arith("Add", cur.expr, rhs.expr, "f64")), env2)
        return [([], Opaque("unit"), "return", None, {"env": env2})]

    def m_slice_get(self, it_, a, callee):
        v = mapmodel._val(it_, a[0])
        idx = a[1]
        res = [(["(= %s %d)" % (idx.expr, i)], it_._mk_enum("Option", "Some", [x]), "return", None) for i, x in enumerate(v.items)]
        res.append((["(or (< %s 0) (>= %s %d))" % (idx.expr, idx.expr, len(v.items))], it_._mk_enum("Option", "None", []), "return", None))
        return res

    def m_unwrap_or(self, it_, a, callee):
        return [(pc, payload if is_some else mapmodel._val(it_, a[1]), "return", None) for pc, is_some, payload in models.opt_cases(it_, a[0])]

    def m_unwrap(self, it_, a, callee):
        return [(pc, payload, "return", None) if is_some else (pc, None, "panic", "unwrap on None") for pc, is_some, payload in models.opt_cases(it_, a[0])]

    # -- values
    def value(self, name, kind=None):
        sem = self.sem
        d = sem.sym_int(name + "_kind", "isize", 0, 3) if kind is None else str(KINDS.index(kind))
        n = c08.sym_float_mag(sem, name + "_n")
        s = c08.sym_float_mag(sem, name + "_s")
        e = c08.sym_float_mag(sem, name + "_e")
        v = Enum("Value", SV("isize", d), {
            "Number": Agg("Value::Number", {"0": SV("f64", n)}),
            "Range": Agg("Value::Range", {"0": SV("f64", s), "1": SV("f64", e)}),
            "Text": Agg("Value::Text", {"0": Opaque("text of " + name)}),
            "Empty": Agg("Value::Empty", {})}, KINDS)
        return v

    def key(self, name, kind_expr, unit=None):
        kf = self.kf
        return Agg("GroupedQuantityKey", {
            str(kf.index("name")): unit if unit is not None else self.string(name + "_unit"),
            str(kf.index("unit_type")): Enum("QuantityType", SV("isize", kind_expr), {k: Agg("QuantityType::" + k, {}) for k in KINDS}, KINDS)})

    def entry(self, name):
        """a map entry satisfying the representation invariant: the value's kind is the key's unit_type"""
        v = self.value(name)
        return (self.key(name, v.discr.expr), v)

    def keys_differ(self, k1, k2):
        n, u = str(self.kf.index("name")), str(self.kf.index("unit_type"))
        return "(not (and %s (= %s %s)))" % (self.str_eq(k1.fields[n], k2.fields[n]), k1.fields[u].discr.expr, k2.fields[u].discr.expr)

    def key_same(self, k1, k2):
        return "(not %s)" % self.keys_differ(k1, k2)

    def added(self, old, new, out):
        """SMT: `out` is `old` with `new` merged in (both of the kind the key states; same kind on both sides)"""
        sem = self.sem
        if not isinstance(out, Enum):
            return "false"
        cases = []
        on, nn = old.variants["Number"].fields["0"].expr, new.variants["Number"].fields["0"].expr
        if "Number" in out.variants:
            cases.append("(and (= %s 0) (= %s %s))" % (out.discr.expr, out.variants["Number"].fields["0"].expr, sem.float_arith("Add", on, nn, "f64")))
        if "Range" in out.variants:
            os_, oe = old.variants["Range"].fields["0"].expr, old.variants["Range"].fields["1"].expr
            ns_, ne = new.variants["Range"].fields["0"].expr, new.variants["Range"].fields["1"].expr
            r = out.variants["Range"]
            cases.append("(and (= %s 1) (= %s %s) (= %s %s))" % (out.discr.expr, r.fields["0"].expr, sem.float_arith("Add", os_, ns_, "f64"),
                                                                  r.fields["1"].expr, sem.float_arith("Add", oe, ne, "f64")))
        if "Text" in out.variants:
            t = out.variants["Text"].fields["0"]
            ok = isinstance(t, Opaque) and t.what == "concat" and t.args[0] is old.variants["Text"].fields["0"] and t.args[1] is new.variants["Text"].fields["0"]
            cases.append("(and (= %s 2) %s)" % (out.discr.expr, "true" if ok else "false"))
        cases.append("(= %s 3)" % out.discr.expr)
        return "(and (= %s %s) (or %s))" % (out.discr.expr, old.discr.expr, " ".join(cases))


def final_of(it, o, loc="_1"):
    return it.deref(o.env[loc], o.env)


def merge_part(run, ms, items, nleft, nright):
    """merge_grouped_quantities from an arbitrary pair of maps with nleft / nright entries"""
    w = W(ms, "m%d%d" % (nleft, nright))
    it, sem = w.it, w.sem
    f = ms.dump.find(r"^merge_grouped_quantities$")
    L = [w.entry("l%d" % i) for i in range(nleft)]
    R = [w.entry("r%d" % i) for i in range(nright)]
    inv = []
    for ents in (L, R):
        for i in range(len(ents)):
            for j in range(i):
                inv.append(w.keys_differ(ents[i][0], ents[j][0]))       # a map holds a key once
    outs = it.run(f, [MapVal(L), MapVal(R)])
    D = sem.decls          # live list: the specification terms built below may add declarations
    tag = "merge_grouped_quantities %d<-%d" % (nleft, nright)
    n_ret = 0
    for o in outs:
        p = ">".join(o.trace[-2:])
        pcs = mcheck.pc_assert(o.pc) + inv
        if o.kind == "panic":
            items.append((D, "%s never panics (\"Unexpected type\") on maps whose values have the kind their key states: %s" % (tag, str(o.msg)[:30]), pcs, "unsat"))
            continue
        if o.kind != "return":
            continue
        n_ret += 1
        after = final_of(it, o).entries
        conds = []
        # every left entry is still there, in place; it absorbed exactly the right entries with its key (at most one)
        if len(after) < nleft:
            conds.append("false")
        for i, (k, v) in enumerate(L):
            if i >= len(after):
                break
            ak, av = after[i]
            conds.append("true" if ak is k else "false")
            hit = ["(and %s %s)" % (w.key_same(k, rk), w.added(v, rv, av)) for rk, rv in R]
            none = "(and %s %s)" % (" ".join([w.keys_differ(k, rk) for rk, _ in R]) or "true", c08.same(av, v))
            conds.append("(or %s %s)" % (" ".join(hit), none) if hit else none)
        # appended entries: exactly the right entries whose key the left map lacked, each once, value copied
        extra = after[nleft:]
        for rk, rv in R:
            missing = "(and %s)" % " ".join([w.keys_differ(rk, k) for k, _ in L]) if L else "true"
            present = ["true" if (ek is rk and ev is rv) else "false" for ek, ev in extra]
            n_present = sum(1 for x in present if x == "true")
            conds.append("(= %s %s)" % (missing, "true" if n_present == 1 else "false"))
            if n_present > 1:
                conds.append("false")
        if len(extra) > nright:
            conds.append("false")
        items.append((D, "%s path[%s]: each right amount is added to the left amount of the same unit and kind (float sum, texts appended) or stored "
                         "as a new entry; counted once; everything else untouched" % (tag, p), pcs + ["(not (and %s))" % " ".join(conds)], "unsat"))
        items.append((D, "reachable: %s path[%s]" % (tag, p), pcs, "info"))
    if n_ret == 0:
        run.inconclusive.append("%s: no returning path" % tag)


def group_part(run, ms, items):
    """into_group_quantity: one entry, keyed by the unit (or the empty string) and the kind of the amount, holding the amount"""
    w = W(ms, "g")
    it, sem = w.it, w.sem
    f = ms.dump.find(r"^into_group_quantity$")
    af = w.decls.structs["Amount"]
    v = w.value("amt")
    unit = w.string("unit")
    has_unit = sem.sym_int("has_unit", "isize", 0, 1)
    has_amount = sem.sym_int("has_amount", "isize", 0, 1)
    amount = Agg("Amount", {str(af.index("quantity")): v, str(af.index("units")): models.mk_option(it, SV("isize", has_unit), unit)})
    arg = models.mk_option(it, SV("isize", has_amount), amount)
    outs = it.run(f, [arg])
    D = sem.decls          # live list: the specification terms built below may add declarations
    n = 0
    for o in outs:
        p = ">".join(o.trace[-2:])
        pcs = mcheck.pc_assert(o.pc)
        if o.kind == "panic":
            items.append((D, "into_group_quantity never panics: %s" % str(o.msg)[:30], pcs, "unsat"))
            continue
        if o.kind != "return":
            continue
        n += 1
        mp = o.value
        if not isinstance(mp, MapVal) or len(mp.entries) != 1:
            items.append((D, "into_group_quantity path[%s]: exactly one entry" % p, pcs, "unsat"))
            continue
        k, val = mp.entries[0]
        kn, ku = k.fields[str(w.kf.index("name"))], k.fields[str(w.kf.index("unit_type"))]
        name_ok = "(ite (and (= has_amount 1) (= has_unit 1)) %s %s)" % (w.str_eq(kn, unit), "(= %s 0)" % w.str_expr(kn))
        kind_ok = "(= %s (ite (= has_amount 1) %s 3))" % (ku.discr.expr, v.discr.expr)
        val_ok = "(ite (= has_amount 1) %s (= %s 3))" % (c08.same(val, v), val.discr.expr if isinstance(val, Enum) else "-1")
        items.append((D, "into_group_quantity path[%s]: the single entry is keyed by (unit or \"\", kind of the amount) and holds the amount itself "
                         "(Empty when there is no amount) - the invariant merge_grouped_quantities relies on" % p,
                      pcs + ["(not (and %s %s %s))" % (name_ok, kind_ok, val_ok)], "unsat"))
    if n == 0:
        run.inconclusive.append("into_group_quantity: no returning path")


def combine_part(run, ms, items, shape):
    """combine_ingredients_selected over a concrete number of ingredients / selected indices, everything else symbolic:
    per (name, unit, kind) the combined amount is the float sum of the selected amounts, each selected index counted once"""
    n_ing, n_sel = shape
    w = W(ms, "c%d%d" % (n_ing, n_sel))
    it, sem = w.it, w.sem
    f = ms.dump.find(r"^combine_ingredients_selected$")
    inf = w.decls.structs.lookup("Ingredient", "model")
    af = w.decls.structs["Amount"]
    ings = []
    for i in range(n_ing):
        nm = w.string("name%d" % i)
        un = w.string("unit%d" % i)
        num = c08.sym_float_mag(sem, "%s_amt%d" % (sem.prefix, i))
        val = Enum("Value", SV("isize", "0"), {"Number": Agg("Value::Number", {"0": SV("f64", num)})}, KINDS)
        amount = Agg("Amount", {str(af.index("quantity")): val, str(af.index("units")): models.mk_option(it, SV("isize", "1"), un)})
        # the last ingredient may be a bare mention (no amount)
        has = sem.sym_int("%s_has%d" % (sem.prefix, i), "isize", 0, 1) if i == n_ing - 1 else "1"
        ing = OpenAgg("Ingredient", {str(inf.index("name")): nm, str(inf.index("amount")): models.mk_option(it, SV("isize", has), amount)})
        ing.nm, ing.un, ing.num, ing.has = nm, un, num, has
        ings.append(ing)
    sel = [SV("u32", sem.sym_int("sel%d" % j, "u32", 0, n_ing - 1)) for j in range(n_sel)]
    distinct = ["(not (= %s %s))" % (sel[a].expr, sel[b].expr) for a in range(n_sel) for b in range(a)]
    outs = it.run(f, [VecVal(ings), VecVal(sel)])
    D = sem.decls          # live list: the specification terms built below may add declarations
    tag = "combine_ingredients_selected(%d ingredients, %d distinct indices)" % (n_ing, n_sel)
    n = 0
    for o in outs:
        p = ">".join(o.trace[-2:])
        pcs = mcheck.pc_assert(o.pc) + distinct
        if o.kind == "panic":
            items.append((D, "%s never panics on in-range indices: %s" % (tag, str(o.msg)[:30]), pcs, "unsat"))
            continue
        if o.kind != "return":
            continue
        n += 1
        lst = o.value
        if not isinstance(lst, MapVal):
            items.append((D, "%s path[%s]: returns a list" % (tag, p), pcs, "unsat"))
            continue
        # expected total for ingredient i's (name, unit): sum over selected j (in selection order) with the same name and unit
        conds = []
        for i, ing in enumerate(ings):
            selected_i = "(or %s)" % " ".join("(= %s %d)" % (s.expr, i) for s in sel)
            # find the value stored under (name_i, unit_i, Number)
            found, empties = [], []
            for (lname, group) in lst.entries:
                if isinstance(group, MapVal):
                    for (gk, gv) in group.entries:
                        if isinstance(gv, Enum):
                            empties.append("(and %s (= %s 0) (= %s 3) (= %s 3))" % (w.str_eq(lname, ing.nm), w.str_expr(gk.fields[str(w.kf.index("name"))]),
                                                                                      gk.fields[str(w.kf.index("unit_type"))].discr.expr, gv.discr.expr))
            for (lname, group) in lst.entries:
                if not isinstance(group, MapVal):
                    continue
                for (gk, gv) in group.entries:
                    same_slot = "(and %s %s (= %s 0))" % (w.str_eq(lname, ing.nm), w.str_eq(gk.fields[str(w.kf.index("name"))], ing.un),
                                                          gk.fields[str(w.kf.index("unit_type"))].discr.expr)
                    if isinstance(gv, Enum) and "Number" in gv.variants:
                        found.append((same_slot, gv.variants["Number"].fields["0"].expr, gv.discr.expr))
            # the reference sum, folding in selection order with the same float addition the code uses
            total = None
            for j, s in enumerate(sel):
                for k2, other in enumerate(ings):
                    pass
            # build symbolic: contributions in selection order
            acc_terms = []
            for j, s in enumerate(sel):
                # amount of the j-th selected ingredient if it shares (name, unit) with ingredient i, else "absent"
                share = "(or %s)" % " ".join("(and (= %s %d) (= %s 1) %s %s)" % (s.expr, k2, o2.has, w.str_eq(o2.nm, ing.nm), w.str_eq(o2.un, ing.un)) for k2, o2 in enumerate(ings))
                amt = "0.0"
                for k2, o2 in reversed(list(enumerate(ings))):
                    amt = "(ite (= %s %d) %s %s)" % (s.expr, k2, o2.num, amt)
                acc_terms.append((share, amt))
            # exact real sum of the sharing contributions; the float result must be within the accumulated rounding bound
            exact = "(+ 0.0 %s)" % " ".join("(ite %s %s 0.0)" % (sh, am) for sh, am in acc_terms)
            mag = "(+ 0.0 %s)" % " ".join("(ite %s %s 0.0)" % (sh, sem.absx(am)) for sh, am in acc_terms)
            tol = "(* %s %s)" % (smt.rat(2.0 ** -52 * n_sel), mag)
            slot_ok = []
            for same_slot, expr, dexpr in found:
                diff = sem.absx("(- %s %s)" % (expr, exact))
                slot_ok.append("(and %s (= %s 0) (<= %s %s))" % (same_slot, dexpr, diff, tol))
            exactly_one = []
            for a_ in range(len(found)):
                for b_ in range(a_):
                    exactly_one.append("(not (and %s %s))" % (found[a_][0], found[b_][0]))
            conds.append("(=> (and %s (= %s 1)) (and (or %s) %s))" % (selected_i, ing.has, " ".join(slot_ok) or "false", " ".join(exactly_one) or "true"))
            # a selected bare mention is listed too: an `Empty` entry under its name and the empty unit
            conds.append("(=> (and %s (= %s 0)) (or %s))" % (selected_i, ing.has, " ".join(empties) or "false"))
            conds.append("(=> (not (or %s)) (not (or %s)))" % (" ".join("(and (= %s %d) (= %s 1) %s %s)" % (s.expr, k2, o2.has, w.str_eq(o2.nm, ing.nm), w.str_eq(o2.un, ing.un))
                                                                         for s in sel for k2, o2 in enumerate(ings)),
                                                              " ".join(ss for ss, _, _ in found) or "false"))
        items.append((D, "%s path[%s]: under each (name, unit) the list holds one number, the sum of the selected amounts with that name and unit "
                         "(each index once, within float rounding), a selected bare mention is listed as an Empty entry; nothing for names/units that were not selected" % (tag, p),
                      pcs + ["(not (and %s))" % " ".join(conds)], "unsat"))
    if n == 0:
        run.inconclusive.append("%s: no returning path" % tag)
    return w


# ----------------------------------------------------------------------------------------------------------------------
# the view half: into_simple_recipe / into_item / the From impls, on recipes of a fixed shape with symbolic content

def view_part(run, ms, items, shape):
    """shape: list of sections, each a list of contents: "T" (text block) or an int n (a step with n items of symbolic kind)"""
    d = ms.decls
    w = W(ms, "v%d" % len(items))
    it, sem = w.it, w.sem
    it.lenient = True
    it.abstract_fns = [r"^cooklang::", r"^<cooklang::", r"^Recipe::<", r"Quantity::<.*>::(value|unit)$", r"Number::value$"]
    it.models.update({
        r"^<&Vec<.*> as IntoIterator>::into_iter$": lambda it_, a, c: models.IterVal(list(mapmodel._val(it_, a[0]).items)),
        r"^<std::slice::Iter<'_, .*> as Iterator>::next$": models.m_iter_next,
        r"^<std::slice::Iter<'_, .*> as Iterator>::map::<": models.m_iter_map,
        r"^<(std::iter::)?Map<std::slice::Iter<'_, .*>, .*> as Iterator>::collect::<Vec<": models.m_iter_collect,
        r"^<&serde_yaml::mapping::Mapping as IntoIterator>::into_iter$": lambda it_, a, c: models.IterVal([]),
        r"^<serde_yaml::mapping::Iter<'_> as Iterator>::next$": models.m_iter_next,
        r"^<Vec<u32> as (std::iter::)?Extend<u32>>::extend::<Vec<u32>>$": m_vec_extend,
        r"^<&cooklang::(Ingredient|Cookware|Timer) as Into<model::(Ingredient|Cookware|Timer)>>::into$": m_into_via_from,
        r"^(std::option::)?Option::<(std::string::)?String>::unwrap_or_default$": lambda it_, a, c: Opaque("unwrap_or_default", [a[0]]),
    })
    f = ms.dump.find(r"^(model::)?into_simple_recipe$")
    inames = [v for v, _ in d.enums.lookup("Item", "cooklang")]
    cnames = [v for v, _ in d.enums.lookup("Content", "cooklang")]
    secf, stepf = d.structs.lookup("Section", "cooklang::model"), d.structs.lookup("Step", "cooklang::model")
    recf = d.structs.lookup("Recipe", "cooklang::model")
    sections, facts = [], []
    for si, sec in enumerate(shape):
        contents = []
        for ci, c in enumerate(sec):
            if c == "T":
                tok = Opaque("text of block %d.%d" % (si, ci))
                contents.append(Enum("Content", SV("isize", str(cnames.index("Text"))), {"Text": Agg("Content::Text", {"0": tok})}, cnames))
                facts.append(("T", tok))
                continue
            its = []
            for k in range(c):
                kind = sem.sym_int("k_%d_%d_%d" % (si, ci, k), "isize", 0, len(inames) - 1)
                idx = sem.sym_int("i_%d_%d_%d" % (si, ci, k), "usize", 0, 2 ** 31)
                txt = Opaque("text of item %d.%d.%d" % (si, ci, k))
                its.append(Enum("Item", SV("isize", kind), {n: Agg("Item::" + n, {"0": txt if n == "Text" else SV("usize", idx)}) for n in inames}, inames))
                its[-1].kind, its[-1].idx, its[-1].txt = kind, idx, txt
            step = Agg("Step", {str(stepf.index("items")): VecVal(its), str(stepf.index("number")): SV("u32", "1")})
            contents.append(Enum("Content", SV("isize", str(cnames.index("Step"))), {"Step": Agg("Content::Step", {"0": step})}, cnames))
            facts.append(("S", its))
        title = models.mk_option(it, SV("isize", sem.sym_int("named_%d" % si, "isize", 0, 1)), Opaque("name of section %d" % si))
        sections.append(Agg("Section", {str(secf.index("name")): title, str(secf.index("content")): VecVal(contents)}))
        sections[-1].title, sections[-1].facts = title, facts
        facts = []
    ing = OpenAgg("Ingredient", {})
    cw = OpenAgg("Cookware", {})
    tm = OpenAgg("Timer", {})
    recipe = OpenAgg("Recipe", {str(recf.index("sections")): VecVal(sections), str(recf.index("ingredients")): VecVal([ing]),
                                str(recf.index("cookware")): VecVal([cw]), str(recf.index("timers")): VecVal([tm]),
                                str(recf.index("metadata")): OpenAgg("Metadata", {})})
    outs = it.run(f, [recipe])
    D = sem.decls
    crf = d.structs.lookup("CooklangRecipe", "model")
    bsec, bstep = d.structs.lookup("Section", "model"), d.structs.lookup("Step", "model")
    bnames = [v for v, _ in d.enums.lookup("Block", "model")]
    onames = [v for v, _ in d.enums.lookup("Item", "model")]
    tag = "into_simple_recipe(%s)" % "|".join(",".join(str(c) for c in sec) for sec in shape)
    n = 0
    for o in outs:
        p = ">".join(o.trace[-2:])
        pcs = mcheck.pc_assert(o.pc)
        if o.kind == "panic":
            items.append((D, "%s never panics: %s" % (tag, str(o.msg)[:40]), pcs, "unsat"))
            continue
        if o.kind != "return":
            continue
        n += 1
        out = o.value
        conds = []

        def lst(v):
            return v.items if isinstance(v, VecVal) else None

        def u32s(v, want):
            """v is the list of the given index expressions (as u32)"""
            xs = lst(v)
            if xs is None or len(xs) != len(want):
                return "false"
            return c08.conj(["(= %s %s)" % (x.expr, e) if isinstance(x, SV) else "false" for x, e in zip(xs, want)])
        osecs = lst(out.fields[str(crf.index("sections"))]) if isinstance(out, Agg) else None
        if osecs is None or len(osecs) != len(sections):
            conds.append("false")
        else:
            for sec, osec in zip(sections, osecs):
                conds.append(c08.same(osec.fields[str(bsec.index("title"))], sec.title))
                blocks = lst(osec.fields[str(bsec.index("blocks"))])
                if blocks is None or len(blocks) != len(sec.facts):
                    conds.append("false")
                    continue
                sec_lists = {"IngredientRef": [], "CookwareRef": [], "TimerRef": []}
                for (kind, data), blk in zip(sec.facts, blocks):
                    if not isinstance(blk, Enum) or not re.match(r"^\d+$", blk.discr.expr):
                        conds.append("false")
                        continue
                    bname = bnames[int(blk.discr.expr)]
                    if kind == "T":
                        ok = bname == "NoteBlock" and blk.variants[bname].fields["0"].fields["0"] is data
                        conds.append("true" if ok else "false")
                        continue
                    if bname != "StepBlock":
                        conds.append("false")
                        continue
                    st = blk.variants[bname].fields["0"]
                    oitems = lst(st.fields[str(bstep.index("items"))])
                    if oitems is None or len(oitems) != len(data):
                        conds.append("false")
                        continue
                    # the path condition fixes each item's kind: read it off the output item and tie it to the input item
                    per = {"IngredientRef": [], "CookwareRef": [], "TimerRef": []}
                    for src, oi in zip(data, oitems):
                        if not isinstance(oi, Enum) or not re.match(r"^\d+$", oi.discr.expr):
                            conds.append("false")
                            continue
                        on = onames[int(oi.discr.expr)]
                        payload = oi.variants[on].fields["0"]
                        if on == "Text":
                            is_txt = "(= %s %d)" % (src.kind, inames.index("Text"))
                            is_inl = "(= %s %d)" % (src.kind, inames.index("InlineQuantity"))
                            same_txt = "true" if payload is src.txt else "false"
                            conds.append("(or (and %s %s) %s)" % (is_txt, same_txt, is_inl))
                        else:
                            want_kind = {"IngredientRef": "Ingredient", "CookwareRef": "Cookware", "TimerRef": "Timer"}[on]
                            e = payload.expr if isinstance(payload, SV) else None
                            conds.append("(and (= %s %d) %s)" % (src.kind, inames.index(want_kind), "(= %s (mod %s 4294967296))" % (e, src.idx) if e else "false"))
                            per[on].append(e or "0")
                    for on, fld in (("IngredientRef", "ingredient_refs"), ("CookwareRef", "cookware_refs"), ("TimerRef", "timer_refs")):
                        conds.append(u32s(st.fields[str(bstep.index(fld))], per[on]))
                        sec_lists[on] += per[on]
                for on, fld in (("IngredientRef", "ingredient_refs"), ("CookwareRef", "cookware_refs"), ("TimerRef", "timer_refs")):
                    conds.append(u32s(osec.fields[str(bsec.index(fld))], sec_lists[on]))
        for fld, src in (("ingredients", ing), ("cookware", cw), ("timers", tm)):
            xs = lst(out.fields[str(crf.index(fld))]) if isinstance(out, Agg) else None
            conds.append("true" if (xs is not None and len(xs) == 1) else "false")
        items.append((D, "%s path[%s]: sections, blocks and step items mirror the core recipe in order (text blocks as notes, inline quantities as "
                         "empty text, indices unchanged); each step lists the components its items refer to, in order; each section's lists are "
                         "the concatenation of its steps' lists; every component is carried over" % (tag, p),
                      pcs + ["(not %s)" % c08.conj(conds)], "unsat"))
    if n == 0:
        run.inconclusive.append("%s: no returning path" % tag)
    return w


def m_vec_extend(it, args, callee):
    cur = it.deref(args[0], it.cur_env)
    add = mapmodel._val(it, args[1])
    env2 = mir.fork_env(it.cur_env)
    it.write_ref(args[0], VecVal(list(cur.items) + list(add.items)), env2)
    return [([], Opaque("unit"), "return", None, {"env": env2})]


def m_into_via_from(it, args, callee):
    """`<&A as Into<B>>::into` is the blanket impl over `<B as From<&A>>::from`, whose body is in the dump"""
    m = re.match(r"^<(.*) as Into<(.*)>>::into$", callee)
    target = it.auto_resolve("<%s as From<%s>>::from" % (m.group(2), m.group(1)), args)
    if target is None:
        raise mir.Unsupported("no From impl found for %s" % callee)
    return it.call_inlined(target, args, 2)


SCENARIOS = [
    # (ingredients [(name, amount | [start, end] | "text" | None, unit | None)], indices, expected {(name, unit, kind): value})
    ([("salt", 5.0, "g"), ("pepper", 5.0, "tsp"), ("salt", 0.005, "kg"), ("pepper", 1.0, "tsp")], [0, 1, 2, 3],
     {("salt", "g", "Number"): 5.0, ("salt", "kg", "Number"): 0.005, ("pepper", "tsp", "Number"): 6.0}),
    ([("a", 1.5, "g"), ("a", 2.25, "g"), ("a", 4.0, "g")], [2, 0], {("a", "g", "Number"): 5.5}),
    ([("a", 1.5, "g"), ("a", 2.25, "g"), ("a", 4.0, "g")], [0, 2], {("a", "g", "Number"): 5.5}),
    ([("a", 0.1, "g"), ("b", 0.2, "g"), ("a", 0.3, "ml")], [1], {("b", "g", "Number"): 0.2}),
    ([("w", [1.0, 2.0], "l"), ("w", [0.5, 4.0], "l"), ("w", 3.0, "l"), ("w", "some", "l"), ("w", "more", "l"), ("w", None, None), ("w", 2.0, None)],
     [0, 1, 2, 3, 4, 5, 6],
     {("w", "l", "Range"): [1.5, 6.0], ("w", "l", "Number"): 3.0, ("w", "l", "Text"): "somemore", ("w", "", "Empty"): None, ("w", "", "Number"): 2.0}),
    ([("x", 1.0, "g"), ("x", "<empty>", "g"), ("x", "<empty>", "g")], [1, 0, 2], {("x", "g", "Number"): 1.0, ("x", "g", "Empty"): None}),
    ([("salt", 5.0, "g"), ("salt", None, None)], [0, 1], {("salt", "g", "Number"): 5.0, ("salt", "", "Empty"): None}),
    ([("salt", 5.0, "g"), ("salt", None, None)], [1, 0], {("salt", "g", "Number"): 5.0, ("salt", "", "Empty"): None}),
]


def scenarios(run, nat):
    """the same claims on concrete inputs through the crate's public API (replay of candidates; encoder validation)"""
    bad = []
    r = nat.call_bindings("combine", json.dumps([dict(ingredients=i, indices=s) for i, s, _ in SCENARIOS]))
    run.traces_validated += len(SCENARIOS)
    if not isinstance(r, dict) or "error" in r or "results" not in r:
        return ["bindings scenario runner failed: %s" % str(r)[:300]]

    def close(a, b):
        if isinstance(a, list) and isinstance(b, list):
            return len(a) == len(b) and all(close(x, y) for x, y in zip(a, b))
        if isinstance(a, (int, float)) and isinstance(b, (int, float)):
            return abs(a - b) <= 1e-9 * (abs(b) + 1)
        return a == b
    for (ings, sel, want), got in zip(SCENARIOS, r["results"]):
        if got.get("panic"):
            bad.append("combine_ingredients_selected(%r, %r) panicked" % (ings, sel))
            continue
        g = {}
        dup = False
        for e in got.get("entries", []):
            k = (e["name"], e["unit"], e["key_kind"])
            dup = dup or k in g or e["key_kind"] != e["v"]["kind"]
            g[k] = e["v"]["value"]
        if dup or set(g) != set(want) or any(not close(g[k], want[k]) for k in want):
            bad.append("combine_ingredients_selected(%r, %r) = %r, expected %r" % (ings, sel, g, want))
    return bad


VIEW_CASES = [
    "Mix @salt{1%g} in #bowl{} for ~{5%min}.\\n\\n> a note\\n\\nAdd @pepper and @salt{2%g} to #pan{}.\\n",
    "= A\\nStep @a{} #p{}\\n\\n= B\\n> note first\\n\\nThen @b{} ~t{1%min} and @a{}\\n\\nLast #p{} step.\\n",
    "> only a note\\n",
    "One @x{1} ~{2%min} #y{} two @z{3%g}(chopped) ~rest{1%h}.\\n",
]


def view_scenarios(run, nat):
    bad = []
    for text in VIEW_CASES:
        r = nat.call_bindings("view", text)
        run.traces_validated += 1
        if not isinstance(r, dict) or "error" in r or r.get("panic"):
            bad.append("%r: %s" % (text, str(r)[:200]))
        else:
            bad += ["%r: %s" % (text, p) for p in r.get("problems", [])]
    return bad


def check(run):
    scr = scratch.Scratch()
    scr.copy_repo()
    scr.inject()
    nat = native.Native(scr)
    nat.build(log=os.path.join(run.logdir, "native-build.log"))
    nat.build_bindings(log=os.path.join(run.logdir, "native-bindings-build.log"))
    ms = mcheck.MSession(run, scr)
    items = []
    try:
        load_bindings_mir(run, scr, ms)
        run.functions += ["bindings model::into_group_quantity (MIR)", "bindings model::merge_grouped_quantities + its and_modify closure (MIR)",
                          "bindings model::add_to_ingredient_list, expand_with_ingredients, combine_ingredients_selected (MIR)"]
        group_part(run, ms, items)
        shapes = [(0, 1), (1, 1), (2, 1), (1, 2), (2, 2)] if run.tier == "quick" else [(0, 1), (1, 1), (2, 1), (1, 2), (2, 2), (3, 1), (0, 3)]
        for nl, nr in shapes:
            try:
                merge_part(run, ms, items, nl, nr)
            except mir.Unsupported as e:
                run.inconclusive.append("encoder (merge %d<-%d): %s" % (nl, nr, e))
        for shape in ([(2, 2), (3, 2)] if run.tier == "quick" else [(2, 2), (3, 2), (3, 3), (4, 3)]):
            combine_part(run, ms, items, shape)
        run.functions += ["bindings model::into_simple_recipe, into_item, From<&cooklang::{Ingredient,Cookware,Timer}> (MIR)"]
        abstracted = set()
        for shape in ([[[1, "T", 1]], [[2], ["T"]]] if run.tier == "quick" else [[[1, "T", 1]], [[2], ["T"]], [[1, 1, "T", 1]], [[2, 2]], [["T", 1], [1]]]):
            wv = view_part(run, ms, items, shape)
            abstracted |= set(getattr(wv.it, "abstracted_calls", ()))
        run.assumptions.append("view half: uninterpreted in the encoding: " + ", ".join(sorted(abstracted))[:800])
    except mir.Unsupported as e:
        run.inconclusive.append("encoder: %s" % e)

    def on_sat(name):
        def cb(model, ob, item):
            bad = view_scenarios(run, nat) if "into_simple_recipe" in name else scenarios(run, nat)
            if bad:
                run.violation("kernel=bindings::%s scenario" % ("view" if "into_simple_recipe" in name else "combine"), "; ".join(bad[:2])[:700],
                              dict(engine="mir-smt", replay="view" if "into_simple_recipe" in name else "combine"))
                ob["status"] = "violated"
            else:
                run.inconclusive.append("C19 %s: candidate does not reproduce through the public API" % name[:90])
        return cb
    by = {}
    for (D, name, asserts, expect) in items:
        by.setdefault(id(D), (D, []))[1].append((name, asserts, expect))
    k = 0
    for _, (D, lst) in by.items():
        k += 1
        b = mcheck.Batch(ms, "c19-%d" % k, D, timeout_s=60 if run.tier == "quick" else 300)
        for name, asserts, expect in lst:
            b.add(name, asserts, expect, (), on_sat(name))
        b.run()
    if items:
        run.samples.append({"engine": "mir-smt", "obligation": items[0][1]})
        run.samples.append({"engine": "mir-smt", "obligation": items[-1][1]})
    ms.close()
    bad = scenarios(run, nat)
    if bad and not run.violations:
        run.violation("validation-vector combine", "; ".join(bad[:2])[:700], dict(engine="validation-vector", replay="combine"))
    bad = view_scenarios(run, nat)
    if bad and not run.violations:
        run.violation("validation-vector view", "; ".join(bad[:2])[:700], dict(engine="validation-vector", replay="view"))
    run.assumptions += [
        "strings are abstract identities (this code only compares, clones and - for text amounts - appends them)",
        "HashMap = a list of at most 3 entries with symbolic key equality; iteration order = entry order (the claims are order-insensitive)",
        "representation invariant of GroupedQuantity assumed for merge inputs and proved for into_group_quantity outputs and merge results: "
        "the kind of a value is the unit_type of its key",
        "real+delta float model; per-slot sums compared within n*2^-52 relative to the sum of magnitudes",
    ]
    run.bounds += ["merge: left/right maps of 0..2 x 1..2 entries (plus 3<-1 and 0<-3 in the thorough tier)",
                   "combine: 2..3 ingredients x 2 distinct selected indices (up to 4 x 3 in the thorough tier), numeric amounts with units"]
    run.not_covered += [
        "view half: amounts / units of the carried-over components beyond presence (Number::value, Quantity::unit are uninterpreted), metadata, "
        "deref_component, uniffi scaffolding; recipes with more than two sections / three blocks / two items per step",
        "combining range / text / unit-less amounts end to end (their merge step is decided; the selection loop is decided for numbers only)",
        "merge_ingredient_lists (Entry::or_default over the outer map) beyond its merge step",
    ]


def replay(run, path):
    scr = scratch.Scratch()
    scr.copy_repo()
    scr.inject()
    nat = native.Native(scr)
    nat.build_bindings()
    bad = scenarios(run, nat) + view_scenarios(run, nat)
    print("replay:", bad or "all combination and view scenarios as documented")
    if bad:
        print("VIOLATION property=C19 replay=%s" % path)
        return 1
    return 0
