"""C09 - unit conversion preserves the physical amount.

native : unit table of Converter::bundled() on the current tree + closed-term checks of the best lists
M      : convert_f64 / Converter::convert_f64 / convert_value / convert_to_unit from MIR; per ordered pair
         (and triple) of shipped units: agrees with the independent definitions, there-and-back, via a third
K      : best-unit threshold selection (Kani)
"""
import os, json, itertools, random
from fractions import Fraction
import scratch, kani_group, registry, native, mcheck, mir, smt, models
from mir import SV, Agg, Enum, Opaque

U = Fraction(1, 2 ** 53)
VERIF = os.path.dirname(os.path.dirname(os.path.abspath(__file__)))
V_MAX = 10 ** 9
V_MIN = Fraction(1, 10 ** 6)
DEF_TOL = Fraction(2, 10 ** 6)     # precision of the shipped file itself (tsp has 7 significant digits)


def load_oracle():
    o = json.load(open(os.path.join(VERIF, "oracle", "unit_definitions.json")))

    def fr(s):
        parts = s.split("/")
        v = Fraction(parts[0])
        for p in parts[1:]:
            v /= Fraction(p)
        return v
    units = {k: dict(quantity=v["quantity"], factor=fr(v["factor"]), offset=fr(v["offset"])) for k, v in o["units"].items()}
    prefixes = {k: fr(v) for k, v in o["si_prefixes"].items()}
    system_of = {}
    for sysname, names in o["systems"].items():
        for n in names:
            system_of[n] = sysname
    return units, prefixes, o["si_bases"], system_of


def oracle_for(unit, oracle):
    """definition of a shipped unit, found through any of its names (SI-prefixed forms included)"""
    units, prefixes, bases, system_of = oracle
    for n in unit["names"]:
        if n in units:
            return dict(units[n], system=system_of.get(n))
        for p, f in prefixes.items():
            if n.startswith(p) and n[len(p):] in bases and n[len(p):] in units:
                b = units[n[len(p):]]
                return dict(quantity=b["quantity"], factor=b["factor"] * f, offset=b["offset"], system=system_of.get(n[len(p):]))
    return None


def const_unit(decls, u):
    """a shipped unit as MIR aggregate: ratio / difference are the exact rationals of its f64 fields"""
    order = decls.structs["Unit"]
    fl = {str(order.index("ratio")): SV("f64", smt.rat(Fraction(u["ratio"]))),
          str(order.index("difference")): SV("f64", smt.rat(Fraction(u["difference"]))),
          str(order.index("physical_quantity")): SV("isize", str(u["pq"]))}
    return Agg("Unit", fl)


def absx(e):
    return "(ite (>= %s 0.0) %s (- %s))" % (e, e, e)


def spec_close(val, out, a, b, k=8):
    """out is within k*u*(magnitude) of (val + da)*ra/rb - db  (exact rationals of the shipped fields)"""
    ra, rb = Fraction(a["ratio"]), Fraction(b["ratio"])
    da, db = Fraction(a["difference"]), Fraction(b["difference"])
    exact = "(- (* (+ %s %s) %s) %s)" % (val, smt.rat(da), smt.rat(ra / rb), smt.rat(db))
    mag = "(+ (* (+ %s %s) %s) %s)" % (absx(val), smt.rat(abs(da)), smt.rat(ra / rb), smt.rat(abs(db)))
    return "(<= %s (* %s %s))" % (absx("(- %s %s)" % (out, exact)), smt.rat(k * U), mag)


def m_part(run, scr, nat, table, oracle):
    ms = mcheck.MSession(run, scr)
    dump = ms.load_mir()
    decls = ms.decls
    f_kernel = dump.find(r"^convert_f64$")
    f_method = dump.find_impl_method("convert_f64", r"_1: &Converter, _2: f64, _3: &convert::Unit, _4: &convert::Unit")
    f_value = dump.find_impl_method("convert_value", r"_1: &Converter, _2: ConvertValue")
    f_tounit = dump.find_impl_method("convert_to_unit", r"_1: &Converter, _2: ConvertValue")
    run.functions += ["convert::convert_f64 (MIR)", "convert::Converter::convert_f64 (MIR)",
                      "convert::Converter::convert_value (MIR)", "convert::Converter::convert_to_unit (MIR)"]
    inline = [(r"^convert_f64$", f_kernel), (r"^Converter::convert_f64$", f_method), (r"^Converter::convert_value$", f_value)]

    def new_interp(same_unit=None):
        """fresh encoding context; `same_unit`: truth value of std::ptr::eq on the two &Unit arguments
        (None = unconstrained boolean, legal only when the two units have identical fields)"""
        sem = smt.RealSem()
        mods = dict(models.STD_MODELS)
        mods.update(models.MORE_MODELS)
        mods.update(models.VEC_MODELS)
        mods[r"<convert::PhysicalQuantity as PartialEq>::eq$"] = lambda it, a, c: SV("bool", sem.simplify("(= %s %s)" % (a[0].expr, a[1].expr)))
        mods[r"<convert::PhysicalQuantity as PartialEq>::ne$"] = lambda it, a, c: SV("bool", sem.simplify("(not (= %s %s))" % (a[0].expr, a[1].expr)))

        def m_ptr_eq(it, a, c):
            if same_unit is None:
                return SV("bool", sem.fresh("Bool", "same"))
            return SV("bool", "true" if same_unit else "false")
        mods[r"^std::ptr::eq::<convert::Unit>$"] = m_ptr_eq
        mods[r"RangeInclusive::<f64>::start$"] = lambda it, a, c: a[0].fields["0"]
        mods[r"RangeInclusive::<f64>::end$"] = lambda it, a, c: a[0].fields["1"]
        mods[r"RangeInclusive::<f64>::new$"] = lambda it, a, c: Agg("RangeInclusive", {"0": a[0], "1": a[1]})
        return sem, mir.Interp(dump, decls, sem, inline=inline, models=mods)

    pq_names = [v for v, _ in decls.enums["PhysicalQuantity"]]
    pq_index = {n.lower(): i for i, n in enumerate(pq_names)}
    units = []
    for u in table["units"]:
        d = dict(u)
        d["pq"] = pq_index[u["quantity"].lower()]
        d["oracle"] = oracle_for(u, oracle)
        units.append(d)

    # global declarations: the symbolic value(s)
    G = []
    for nm in ("v", "cv_n", "cv_s", "cv_e"):
        G.append("(declare-const %s Real)" % nm)
        G.append("(assert (and (>= %s %s) (<= %s %s)))" % (nm, smt.rat(-V_MAX), nm, smt.rat(V_MAX)))
        G.append("(assert (or (= %s 0.0) (>= %s %s) (<= %s (- %s))))" % (nm, nm, smt.rat(V_MIN), nm, smt.rat(V_MIN)))
    G.append("(declare-const cv_tag Int)")
    G.append("(assert (and (<= 0 cv_tag) (<= cv_tag 1)))")
    tag = "c09"
    run.bounds.append("M: convert_f64 is a loop-free CFG (2 paths); value in {0} U [1e-6, 1e9] in magnitude, both signs")
    run.assumptions += [
        "real+delta float model; |value| in {0} U [1e-6,1e9] so that no product/quotient underflows or overflows with the shipped ratios (1e-3 .. 1e5)",
        "independent definitions in /verif/oracle/unit_definitions.json (international yard/pound, US customary liquid measures, SI prefixes, K/C/F)",
        "definition tolerance 2e-6 relative: the precision the shipped units.toml itself uses (7 significant digits)",
        "std::ptr::eq(from, to) is true only for the same unit object; modelled as true/false per obligation",
    ]

    def q(name, local, asserts, expect="unsat", values=(), on_sat=None):
        verdict, model = ms.obligation(tag, G, name, asserts, expect, values=values, local_decls=local)
        if verdict == "sat" and expect == "unsat":
            if on_sat:
                on_sat(model)
            else:
                run.inconclusive.append("%s: candidate model without replay: %s" % (name, {k: str(x) for k, x in model.items()}))
        return verdict

    def kernel(it, val, a, b):
        outs = it.run(f_kernel, [SV("f64", val), a, b])
        ret = [o for o in outs if o.kind == "return"]
        pan = [o for o in outs if o.kind == "panic"]
        return ret, pan

    # ---- same-quantity guard (symbolic quantities)
    sem, it = new_interp()
    gu = dict(ratio=1.0, difference=0.0, pq=0)
    A, B = const_unit(decls, gu), const_unit(decls, gu)
    order = decls.structs["Unit"]
    A.fields[str(order.index("physical_quantity"))] = SV("isize", sem.sym_int("A_pq", "isize", 0, len(pq_names) - 1))
    B.fields[str(order.index("physical_quantity"))] = SV("isize", sem.sym_int("B_pq", "isize", 0, len(pq_names) - 1))
    ret, pan = kernel(it, "v", A, B)
    if len(ret) != 1 or len(pan) != 1:
        raise mir.Unsupported("convert_f64: expected one returning and one panicking path, got %d/%d" % (len(ret), len(pan)))
    q("guard: equal quantities never reach the assert_eq panic", sem.decls, mcheck.pc_assert(pan[0].pc) + ["(= A_pq B_pq)"], "unsat")
    q("guard twin: different quantities reach the panic", sem.decls, mcheck.pc_assert(pan[0].pc) + ["(not (= A_pq B_pq))"], "sat")
    q("guard: different quantities never return a number", sem.decls, mcheck.pc_assert(ret[0].pc) + ["(not (= A_pq B_pq))"], "unsat")

    # ---- dispatch: Converter::convert_f64, convert_value, convert_to_unit on one pair per quantity
    by_q = {}
    for u in units:
        by_q.setdefault(u["quantity"], []).append(u)
    inst = [(lst[0], lst[-1]) for qn, lst in sorted(by_q.items()) if len(lst) >= 2]
    cross = None
    qs = sorted(by_q)
    if len(qs) >= 2:
        cross = (by_q[qs[0]][0], by_q[qs[1]][0])
    cvn = [vn for vn, _ in decls.enums["ConvertValue"]]

    def sym_cv():
        return Enum("ConvertValue", SV("isize", "cv_tag"),
                    {"Number": Agg("ConvertValue::Number", {"0": SV("f64", "cv_n")}),
                     "Range": Agg("ConvertValue::Range", {"0": Agg("RangeInclusive", {"0": SV("f64", "cv_s"), "1": SV("f64", "cv_e")})})},
                    cvn)

    def replay_api(ua, ub):
        def cb(model):
            confirm_api(run, nat, ua, ub, model)
        return cb

    for (ua, ub) in inst:
        # the method: different unit objects -> kernel; same unit object -> value unchanged
        sem, it = new_interp(same_unit=False)
        outs = [o for o in it.run(f_method, [Opaque("converter"), SV("f64", "v"), const_unit(decls, ua), const_unit(decls, ub)]) if o.kind != "unreachable"]
        for o in outs:
            if o.kind == "panic":
                q("Converter::convert_f64 %s->%s does not panic" % (ua["symbol"], ub["symbol"]), sem.decls, mcheck.pc_assert(o.pc), "unsat")
            else:
                q("Converter::convert_f64 %s->%s is the affine kernel (8u)" % (ua["symbol"], ub["symbol"]), sem.decls,
                  mcheck.pc_assert(o.pc) + ["(not %s)" % spec_close("v", o.value.expr, ua, ub)], "unsat",
                  values=["v"], on_sat=replay_api(ua, ub))
        sem, it = new_interp(same_unit=True)
        outs = [o for o in it.run(f_method, [Opaque("converter"), SV("f64", "v"), const_unit(decls, ua), const_unit(decls, ua)]) if o.kind == "return"]
        for o in outs:
            q("Converter::convert_f64 %s->%s (same unit) keeps the value" % (ua["symbol"], ua["symbol"]), sem.decls,
              mcheck.pc_assert(o.pc) + ["(not (= %s v))" % o.value.expr], "unsat", values=["v"], on_sat=replay_api(ua, ua))
        # convert_to_unit / convert_value
        sem, it = new_interp(same_unit=False)
        outs = it.run(f_tounit, [Opaque("converter"), sym_cv(), const_unit(decls, ua), const_unit(decls, ub)])
        seen = set()
        for o in outs:
            if o.kind == "panic":
                q("convert_to_unit %s->%s never reaches a panic" % (ua["symbol"], ub["symbol"]), sem.decls, mcheck.pc_assert(o.pc), "unsat")
                continue
            if o.kind != "return":
                continue
            if "Err" in o.value.variants:
                q("convert_to_unit %s->%s (same quantity) does not fail" % (ua["symbol"], ub["symbol"]), sem.decls, mcheck.pc_assert(o.pc), "unsat")
                continue
            okv = o.value.variants["Ok"].fields["0"]
            if "Number" in okv.variants:
                out = okv.variants["Number"].fields["0"].expr
                seen.add("Number")
                q("convert_value Number %s->%s: number in, kernel(number) out" % (ua["symbol"], ub["symbol"]), sem.decls,
                  mcheck.pc_assert(o.pc) + ["(not (and (= cv_tag %d) %s))" % (cvn.index("Number"), spec_close("cv_n", out, ua, ub))], "unsat",
                  values=["cv_n", "cv_s", "cv_e"], on_sat=replay_api(ua, ub))
            elif "Range" in okv.variants:
                rg = okv.variants["Range"].fields["0"]
                seen.add("Range")
                q("convert_value Range %s->%s: both ends converted end-wise" % (ua["symbol"], ub["symbol"]), sem.decls,
                  mcheck.pc_assert(o.pc) + ["(not (and (= cv_tag %d) %s %s))" % (
                      cvn.index("Range"), spec_close("cv_s", rg.fields["0"].expr, ua, ub), spec_close("cv_e", rg.fields["1"].expr, ua, ub))], "unsat",
                  values=["cv_n", "cv_s", "cv_e"], on_sat=replay_api(ua, ub))
        if seen != {"Number", "Range"}:
            run.inconclusive.append("convert_to_unit %s->%s: expected Number and Range success paths, saw %s" % (ua["symbol"], ub["symbol"], sorted(seen)))
    def replay_cross(ua, ub):
        def cb(model):
            for profile in nat.bins:
                r = nat.call("convert_api", "N", "1.5", ua["symbol"], ub["symbol"], profile=profile)
                run.traces_validated += 1
                if "err" not in r:
                    run.violation("units=%s->%s obligation=cross-quantity" % (ua["symbol"], ub["symbol"]),
                                  "Converter::convert(1.5 %s -> %s) across physical quantities returned %s instead of an error" % (
                                      ua["symbol"], ub["symbol"], r),
                                  dict(engine="mir-smt", replay="cross", a=ua["symbol"], b=ub["symbol"], profile=profile))
                    return
            run.inconclusive.append("C09 cross-quantity %s->%s: candidate does not reproduce through Converter::convert" % (ua["symbol"], ub["symbol"]))
        return cb

    if cross:
        ua, ub = cross
        sem, it = new_interp(same_unit=False)
        outs = it.run(f_tounit, [Opaque("converter"), sym_cv(), const_unit(decls, ua), const_unit(decls, ub)])
        errs = 0
        for o in outs:
            if o.kind == "return" and "Ok" in o.value.variants:
                q("convert_to_unit %s->%s (different quantities) never succeeds" % (ua["symbol"], ub["symbol"]), sem.decls, mcheck.pc_assert(o.pc), "unsat",
                  values=["cv_n"], on_sat=replay_cross(ua, ub))
            elif o.kind == "panic":
                q("convert_to_unit %s->%s (different quantities) never panics" % (ua["symbol"], ub["symbol"]), sem.decls, mcheck.pc_assert(o.pc), "unsat",
                  values=["cv_n"], on_sat=replay_cross(ua, ub))
            elif o.kind == "return":
                errs += 1
                q("twin: convert_to_unit %s->%s returns the MixedQuantities error" % (ua["symbol"], ub["symbol"]), sem.decls, mcheck.pc_assert(o.pc), "sat")
        if errs == 0:
            run.inconclusive.append("convert_to_unit across quantities: no error path found")

    # ---- per ordered pair of shipped units: definitions + there-and-back
    missing = [u["symbol"] for u in units if u["oracle"] is None]
    if missing:
        run.inconclusive.append("shipped units without an independent definition in oracle/unit_definitions.json: %s" % missing)
    pairs = [(a, b) for a in units for b in units if a["quantity"] == b["quantity"] and a["oracle"] and b["oracle"]]
    rnd = random.Random(run.seed)
    rnd.shuffle(pairs)
    npairs = 0

    def replay_pair(a, b, kind):
        def cb(model):
            confirm_pair(run, nat, a, b, model, kind)
        return cb

    for u in units:
        if u["oracle"] and u["oracle"]["quantity"] != u["quantity"]:
            run.violation("unit=%s wrong-quantity" % u["symbol"], "unit %s is filed under %s but is a %s unit" % (
                u["symbol"], u["quantity"], u["oracle"]["quantity"]), dict(engine="native", replay="units", unit=u["symbol"]))
    twin_done = False
    for (a, b) in pairs:
        oa, ob = a["oracle"], b["oracle"]
        if oa["quantity"] != ob["quantity"]:
            continue
        sem, it = new_interp()
        A, B = const_unit(decls, a), const_unit(decls, b)
        r1, _ = kernel(it, "v", A, B)
        if len(r1) != 1:
            raise mir.Unsupported("convert_f64 %s->%s: %d returning paths" % (a["symbol"], b["symbol"], len(r1)))
        r2, _ = kernel(it, r1[0].value.expr, B, A)
        ratio = oa["factor"] / ob["factor"]
        want = "(- (* (+ v %s) %s) %s)" % (smt.rat(oa["offset"]), smt.rat(ratio), smt.rat(ob["offset"]))
        tol = "(+ (* %s (+ (* (+ %s %s) %s) %s)) %s)" % (smt.rat(DEF_TOL), absx("v"), smt.rat(oa["offset"]), smt.rat(ratio),
                                                          smt.rat(ob["offset"]), smt.rat(Fraction(1, 10 ** 12)))
        q("definition %s->%s: |convert_f64(v) - ((v+%g)*%.9g - %g)| <= 2e-6 rel" % (
            a["symbol"], b["symbol"], float(oa["offset"]), float(ratio), float(ob["offset"])), sem.decls,
          mcheck.pc_assert(r1[0].pc) + ["(> %s %s)" % (absx("(- %s %s)" % (r1[0].value.expr, want)), tol)], "unsat",
          values=["v"], on_sat=replay_pair(a, b, "definition"))
        rb_ra = Fraction(b["ratio"]) / Fraction(a["ratio"])
        mag = "(+ %s %s)" % (absx("v"), smt.rat(abs(Fraction(a["difference"])) + abs(Fraction(b["difference"])) * rb_ra))
        q("there-and-back %s->%s->%s within 64u" % (a["symbol"], b["symbol"], a["symbol"]), sem.decls,
          mcheck.pc_assert(r1[0].pc) + mcheck.pc_assert(r2[0].pc) +
          ["(> %s (* %s %s))" % (absx("(- %s v)" % r2[0].value.expr), smt.rat(64 * U), mag)], "unsat",
          values=["v"], on_sat=replay_pair(a, b, "roundtrip"))
        if not twin_done and a["symbol"] != b["symbol"]:
            twin_done = True
            q("twin: there-and-back with tolerance u/1000 is refutable (%s,%s)" % (a["symbol"], b["symbol"]), sem.decls,
              mcheck.pc_assert(r1[0].pc) + mcheck.pc_assert(r2[0].pc) +
              ["(> %s (* %s %s))" % (absx("(- %s v)" % r2[0].value.expr), smt.rat(U / 1000), absx("v"))], "sat")
            q("twin: definition %s->%s with tolerance 1e-9 is refutable or exact" % (a["symbol"], b["symbol"]), sem.decls,
              mcheck.pc_assert(r1[0].pc) + ["(> v 1.0)", "(= %s v)" % r1[0].value.expr], "unsat" if ratio != 1 else "sat")
        npairs += 1

    # ---- translator validation: the encoding with v fixed predicts what the real kernel returns (first pairs of the seeded order)
    nbad = 0
    nval = 0
    for (a, b) in pairs[:12]:
        for vv in (1.0, 37.5, -2.25):
            sem, it = new_interp()
            r1, _ = kernel(it, "v", const_unit(decls, a), const_unit(decls, b))
            verdict, model = ms.solver("z3-new", tag, G).check(mcheck.pc_assert(r1[0].pc) + ["(= v %s)" % smt.rat(Fraction(vv))],
                                                               values=[r1[0].value.expr], local_decls=sem.decls)
            real = nat.call("convert", repr(vv), a["symbol"], b["symbol"])
            nval += 1
            run.traces_validated += 1
            try:
                pred = Fraction(smt.parse_values(model)[r1[0].value.expr])
                mag = (abs(Fraction(vv)) + abs(Fraction(a["difference"]))) * Fraction(a["ratio"]) / Fraction(b["ratio"]) + abs(Fraction(b["difference"]))
                if verdict != "sat" or abs(pred - Fraction(real["value"])) > 8 * U * mag:
                    raise ValueError("encoding %s vs real %s" % (float(pred), real))
            except Exception as e:
                nbad += 1
                run.inconclusive.append("translator validation convert_f64(%r, %s, %s): %s" % (vv, a["symbol"], b["symbol"], e))
    run.add_obligation("translator validation on %d concrete conversions" % nval, "mir-smt+native", "holds" if not nbad else "inconclusive",
                       vectors=nval, disagreements=nbad)
    run.vccs += nval

    # ---- triples: via a third unit agrees with the direct conversion
    triples = [(a, b, c) for (a, b) in pairs for c in units if c["quantity"] == a["quantity"] and c["oracle"]]
    rnd.shuffle(triples)
    if run.tier == "quick":
        triples = triples[:300]
    for (a, b, c) in triples:
        sem, it = new_interp()
        A, B, C = const_unit(decls, a), const_unit(decls, b), const_unit(decls, c)
        r1, _ = kernel(it, "v", A, B)
        r2, _ = kernel(it, r1[0].value.expr, B, C)
        r3, _ = kernel(it, "v", A, C)
        ra, rb, rc = Fraction(a["ratio"]), Fraction(b["ratio"]), Fraction(c["ratio"])
        mag = "(+ (* %s %s) %s)" % (absx("v"), smt.rat(ra / rc),
                                    smt.rat(abs(Fraction(a["difference"])) * ra / rc + abs(Fraction(b["difference"])) * rb / rc + abs(Fraction(c["difference"]))))
        q("via-third %s->%s->%s vs %s->%s within 64u" % (a["symbol"], b["symbol"], c["symbol"], a["symbol"], c["symbol"]), sem.decls,
          mcheck.pc_assert(r1[0].pc) + mcheck.pc_assert(r2[0].pc) + mcheck.pc_assert(r3[0].pc) +
          ["(> %s (* %s %s))" % (absx("(- %s %s)" % (r2[0].value.expr, r3[0].value.expr)), smt.rat(64 * U), mag)], "unsat", values=["v"])
    # ---- the value handed to / taken from the converter: Number::value of every number (recorded fraction error included)
    import c08
    cc = c08.build(run, scr, ms=ms)
    run.functions[:] = [f for f in run.functions if "Scale" not in f and "scale" not in f and "RecipeCollector" not in f]
    run.functions.append("<ConvertValue as TryFrom<&Value>>::try_from (MIR)")
    VV = c08.sym_value(cc, "tv")
    f_try_from = cc.dump.find_impl_method("try_from", r"\(_1: &quantity::Value\) -> Result<ConvertValue, ConvertError>")
    cc.it.models[r"^<std::string::String as Clone>::clone$"] = models.m_identity
    cc.it.models[r"RangeInclusive::<f64>::new$"] = lambda it_, a, c_: Agg("RangeInclusive", {"0": a[0], "1": a[1]})
    tv_items = []

    def val_is(x, num):
        # x is Number::value(num): within 4u of whole + err + num/den (or the plain number)
        return "(<= %s (* %s %s))" % (absx("(- %s %s)" % (x, num.exact)), smt.rat(4 * U), num.mag)
    seen_tf = set()
    for o in cc.it.run(f_try_from, [VV]):
        if o.kind == "panic":
            tv_items.append(("ConvertValue::try_from never panics", mcheck.pc_assert(o.pc), "true"))
            continue
        if o.kind != "return":
            continue
        if "Err" in o.value.variants:
            seen_tf.add("Err")
            tv_items.append(("ConvertValue::try_from refuses only text values", mcheck.pc_assert(o.pc), "(not (= %s %d))" % (VV.discr.expr, VV.idx["Text"])))
            continue
        cvv = o.value.variants["Ok"].fields["0"]
        if "Number" in cvv.variants:
            seen_tf.add("Number")
            x = cvv.variants["Number"].fields["0"].expr
            tv_items.append(("ConvertValue::try_from(Number) hands over the exact amount, recorded fraction error included (4u) path[%s]" % ">".join(o.trace[-2:]),
                             mcheck.pc_assert(o.pc), "(not (and (= %s %d) %s))" % (VV.discr.expr, VV.idx["Number"], val_is(x, VV.n))))
        elif "Range" in cvv.variants:
            seen_tf.add("Range")
            rg = cvv.variants["Range"].fields["0"]
            tv_items.append(("ConvertValue::try_from(Range) hands over both ends exactly (4u) path[%s]" % ">".join(o.trace[-2:]),
                             mcheck.pc_assert(o.pc), "(not (and (= %s %d) %s %s))" % (VV.discr.expr, VV.idx["Range"],
                                                                                       val_is(rg.fields["0"].expr, VV.s), val_is(rg.fields["1"].expr, VV.e))))
    if seen_tf != {"Err", "Number", "Range"}:
        run.inconclusive.append("ConvertValue::try_from: expected number, range and text paths, saw %s" % sorted(seen_tf))
    tb = mcheck.Batch(ms, "c09-tryfrom", list(cc.sem.decls), timeout_s=120, deltas=cc.sem.deltas)

    def tf_replay(model, ob, item):
        # public API: a fraction with a recorded error converted to another unit must carry the error along
        for profile in nat.bins:
            r = nat.call("convert_fraction", "0", "1", "2", "0.01", "cup", "ml", profile=profile)
            run.traces_validated += 1
            want = (Fraction(1, 2) + Fraction(1, 100)) * Fraction(236588236, 1000000)
            if "error" in r or abs(Fraction(r.get("n", 0)) - want) > want / 10 ** 6:
                run.violation("kernel=ConvertValue::try_from obligation=amount", "1/2 c (+0.01 recorded error) -> ml = %s, expected %.4f" % (r, float(want)),
                              dict(engine="mir-smt", replay="convert_fraction", profile=profile))
                ob["status"] = "violated"
                return
        run.inconclusive.append("ConvertValue::try_from: candidate does not reproduce through ScaledQuantity::convert")
    for name, pcs, post in tv_items:
        tb.add(name, pcs + ([post] if post != "true" else []), "unsat", ["tv_tag", "tv_n_tag", "tv_n_err"], tf_replay)
    tb.run()

    run.bounds.append("M: %d ordered pairs (all) and %d ordered triples (%s) of the %d shipped units" % (
        npairs, len(triples), "all" if run.tier == "thorough" else "seeded subset; all in the thorough tier", len(units)))
    run.samples.append({"engine": "mir-smt", "kernel": "convert::convert_f64",
                        "obligation": "definition oz->g: (assert (> |out - v*28.349523125| (* 2e-6 ...))) unsat for every v in range",
                        "pairs": npairs, "triples": len(triples)})
    ms.close()


def judge_api(nat, a, b, vals, profile="debug"):
    """public Converter::convert on a number and on a range: every end must equal the affine kernel result"""
    def want(v):
        ra, rb = Fraction(a["ratio"]), Fraction(b["ratio"])
        return (Fraction(v) + Fraction(a["difference"])) * ra / rb - Fraction(b["difference"])

    def close(got, v):
        w = want(v)
        mag = (abs(Fraction(v)) + abs(Fraction(a["difference"]))) * Fraction(a["ratio"]) / Fraction(b["ratio"]) + abs(Fraction(b["difference"]))
        return abs(Fraction(got) - w) <= 8 * U * mag
    n, s_, e_ = vals
    r = nat.call("convert_api", "N", repr(n), a["symbol"], b["symbol"], profile=profile)
    if r.get("kind") != "Number" or not close(r["n"], n):
        return "Converter::convert(Number(%r), %s -> %s) = %s, expected %r" % (n, a["symbol"], b["symbol"], r, float(want(n)))
    r = nat.call("convert_api", "R", repr(s_), repr(e_), a["symbol"], b["symbol"], profile=profile)
    if r.get("kind") != "Range" or not close(r["s"], s_) or not close(r["e"], e_):
        return "Converter::convert(Range(%r..=%r), %s -> %s) = %s, expected %r..=%r" % (
            s_, e_, a["symbol"], b["symbol"], r, float(want(s_)), float(want(e_)))
    return None


def confirm_api(run, nat, a, b, model):
    def g(k, d):
        try:
            return float(Fraction(model[k]))
        except Exception:
            return d
    base = (g("cv_n", g("v", 3.0)), g("cv_s", 2.0), g("cv_e", 7.0))
    tried = 0
    for vals in (base, (base[0], 2.0, 7.0), (3.0, 2.0, 7.0), (base[0] * 1.5, base[1] * 1.5, base[2] * 2.5 + 1.0)):
        for profile in nat.bins:
            tried += 1
            bad = judge_api(nat, a, b, vals, profile)
            if bad:
                run.traces_validated += tried
                run.violation("units=%s->%s obligation=public-convert" % (a["symbol"], b["symbol"]), bad,
                              dict(engine="mir-smt", replay="convert_api", a=a["symbol"], b=b["symbol"], vals=[repr(x) for x in vals], profile=profile))
                return
    run.traces_validated += tried
    run.inconclusive.append("C09 dispatch %s->%s: solver model %s does not reproduce through Converter::convert" % (
        a["symbol"], b["symbol"], {k: str(v) for k, v in model.items()}))


def confirm_pair(run, nat, a, b, model, kind):
    try:
        v0 = float(Fraction(model["v"]))
    except Exception:
        run.inconclusive.append("C09 %s %s->%s: model not decodable: %s" % (kind, a["symbol"], b["symbol"], model))
        return
    tried = 0
    for fv in (1.0, 1.000001, 0.999999, 1.5, 2.0, 10.0, 0.5):
        v = v0 * fv if v0 != 0 else (fv - 1.0) * 10 + 1.0
        for profile in nat.bins:
            bad = judge_pair(nat, a, b, v, kind, profile)
            tried += 1
            if bad:
                run.traces_validated += tried
                key = "units=%s->%s obligation=%s" % (a["symbol"], b["symbol"], kind)
                run.violation(key, bad, dict(engine="mir-smt", replay="convert", kind=kind, value=repr(v),
                                             a=a["symbol"], b=b["symbol"], profile=profile))
                return
    run.traces_validated += tried
    run.inconclusive.append("C09 %s %s->%s: solver model v=%r does not reproduce on the real code" % (kind, a["symbol"], b["symbol"], v0))


def judge_pair(nat, a, b, v, kind, profile="debug"):
    r = nat.call("convert", repr(v), a["symbol"], b["symbol"], profile=profile)
    if "error" in r or r.get("panic"):
        return "convert(%r, %s, %s) failed: %s" % (v, a["symbol"], b["symbol"], r)
    out = Fraction(r["value"])
    oa, ob = a["oracle"], b["oracle"]
    V = Fraction(v)
    if kind == "definition":
        ratio = oa["factor"] / ob["factor"]
        want = (V + oa["offset"]) * ratio - ob["offset"]
        tol = DEF_TOL * ((abs(V) + oa["offset"]) * ratio + ob["offset"]) + Fraction(1, 10 ** 12)
        if abs(out - want) > tol:
            return "convert(%r %s -> %s) = %r but the definitions give %r" % (v, a["symbol"], b["symbol"], r["value"], float(want))
        return None
    r2 = nat.call("convert", repr(r["value"]), b["symbol"], a["symbol"], profile=profile)
    if "error" in r2 or r2.get("panic"):
        return "convert back failed: %s" % r2
    back = Fraction(r2["value"])
    rb_ra = Fraction(b["ratio"]) / Fraction(a["ratio"])
    mag = abs(V) + Fraction(a["difference"]) + Fraction(b["difference"]) * rb_ra
    if abs(back - V) > 64 * U * mag:
        return "%r %s -> %s -> %s gives %r" % (v, a["symbol"], b["symbol"], a["symbol"], r2["value"])
    return None


def best_list_checks(run, table, oracle):
    """closed-term facts on the dump: best lists hold units of their own quantity and system, non-empty, by size"""
    by_symbol = {}
    for u in table["units"]:
        for s in u["symbols"] + u["names"]:
            by_symbol[s] = u
    problems = []
    for bl in table["best"]:
        lst = [by_symbol.get(s) for s in bl["units"]]
        if not lst:
            problems.append("best list for %s/%s is empty" % (bl["quantity"], bl["system"]))
        for s, u in zip(bl["units"], lst):
            if u is None:
                problems.append("best unit %s unknown" % s)
                continue
            if u["quantity"] != bl["quantity"]:
                problems.append("best unit %s of %s list is a %s unit" % (s, bl["quantity"], u["quantity"]))
            if u["system"] is not None and bl["system"] is not None and u["system"] != bl["system"]:
                # unified stores (time) return the same list for both systems
                pass
            o = oracle_for(u, oracle)
            if o and o["quantity"] != bl["quantity"]:
                problems.append("best unit %s of %s list is by definition a %s unit" % (s, bl["quantity"], o["quantity"]))
        ratios = [u["ratio"] for u in lst if u]
        if ratios != sorted(ratios):
            problems.append("best list %s/%s not in increasing size: %s" % (bl["quantity"], bl["system"], bl["units"]))
    for u in table["units"]:
        o = oracle_for(u, oracle)
        if o and o.get("system") and u["system"] and o["system"] != u["system"]:
            problems.append("unit %s is filed under the %s system but is a %s unit" % (u["symbol"], u["system"], o["system"]))
    run.add_obligation("native: best-unit lists and unit systems (closed-term facts)", "native", "holds" if not problems else "violated",
                       lists=len(table["best"]), problems=problems)
    run.vccs += len(table["best"])
    run.traces_validated += 1
    return problems


def check(run):
    scr = scratch.Scratch()
    scr.copy_repo()
    missing = scr.inject()
    if missing:
        run.inconclusive.append("source files missing for injection: %s" % missing)
    nat = native.Native(scr)
    nat.build(log=os.path.join(run.logdir, "native-build.log"))
    table = nat.call("units")
    if "error" in table:
        raise Exception("unit dump failed: %s" % table)
    oracle = load_oracle()
    problems = best_list_checks(run, table, oracle)
    if problems:
        run.violation("best-lists " + problems[0][:60].replace(" ", "_"), "; ".join(problems[:4]), dict(engine="native", replay="units"))
    only = os.environ.get("VERIF_ONLY", "")
    if only in ("", "M"):
        try:
            m_part(run, scr, nat, table, oracle)
        except mir.Unsupported as e:
            run.inconclusive.append("encoder: %s" % e)
    if only in ("", "K"):
        kani_group.run_group(run, scr, registry.select("C09", run.tier))
    run.not_covered += [
        "failure cases through ScaledQuantity::convert (text / unitless / unknown unit keep the quantity): need a built Converter (HashMap)",
        "ScaledRecipe::convert over parsed recipes; fraction fitting after conversion beyond C12's kernel",
        "values above 1e9 or below 1e-6 in magnitude",
    ]


def replay(run, path):
    obj = json.load(open(path))
    scr = scratch.Scratch()
    scr.copy_repo()
    scr.inject()
    if obj.get("engine") == "kani":
        st = kani_group.replay(run, scr, path)
        print("replay:", st)
        if st == "failed":
            print("VIOLATION property=C09 replay=%s" % path)
            return 1
        return 0 if st == "passed" else 2
    nat = native.Native(scr)
    nat.build()
    table = nat.call("units")
    oracle = load_oracle()
    if obj.get("replay") == "units":
        p = best_list_checks(run, table, oracle)
        print("replay:", p)
        if p:
            print("VIOLATION property=C09 replay=%s" % path)
        return 1 if p else 0
    us = {u["symbol"]: dict(u, oracle=oracle_for(u, oracle)) for u in table["units"]}
    if obj.get("replay") == "convert_fraction":
        r = nat.call("convert_fraction", "0", "1", "2", "0.01", "cup", "ml")
        want = (Fraction(1, 2) + Fraction(1, 100)) * Fraction(236588236, 1000000)
        bad = "error" in r or abs(Fraction(r.get("n", 0)) - want) > want / 10 ** 6
        print("replay:", r, "expected", float(want))
        if bad:
            print("VIOLATION property=C09 replay=%s" % path)
        return 1 if bad else 0
    if obj.get("replay") == "cross":
        r = nat.call("convert_api", "N", "1.5", obj["a"], obj["b"])
        print("replay:", r)
        if "err" not in r:
            print("VIOLATION property=C09 replay=%s" % path)
            return 1
        return 0
    if obj.get("replay") == "convert_api":
        bad = judge_api(nat, us[obj["a"]], us[obj["b"]], [float(x) for x in obj["vals"]])
        print("replay:", bad)
        if bad:
            print("VIOLATION property=C09 replay=%s" % path)
        return 1 if bad else 0
    bad = judge_pair(nat, us[obj["a"]], us[obj["b"]], float(obj["value"]), obj["kind"])
    print("replay:", bad)
    if bad:
        print("VIOLATION property=C09 replay=%s" % path)
        return 1
    return 0
