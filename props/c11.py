"""C11 (parse half) - aisle configuration parsing: categories in file order, trimmed `|`-separated names, no category and no
ingredient name twice; a refused file has one of the documented defects.

Engine M over `aisle::parse` with the input abstracted to k lines.  What the code can observe of a line is symbolic: whether
the comment-free, trimmed line starts with `[` / ends with `]` / is empty, the identity of the bracketed name and whether it
contains `|`, the identities of its `|`-separated trimmed pieces.  `str` primitives (lines, split_once("//"), trim_ascii,
starts_with, ends_with, slicing, contains, split('|'), trim) are modelled on these abstract lines; `HashSet<&str>` is a list
with symbolic membership (identity comparison); the span arithmetic of error values is uninterpreted.
The write -> parse round trip and the name lookup are NOT decided."""
import os, re, json
import scratch, native, mcheck, mir, smt, models
from mir import SV, Agg, Enum, Opaque, OpenAgg, VecVal, MapVal, fork_env
import c08


class Line:
    def __init__(self, sem, j, npieces):
        self.j = j
        self.raw, self.nocomment, self.trimmed = Opaque("line %d" % j), Opaque("line %d without its comment" % j), Opaque("line %d, comment-free and trimmed" % j)
        self.name = Opaque("bracketed name of line %d" % j)
        self.sw, self.ew, self.empty, self.bar, self.cmt = ["l%d_%s" % (j, x) for x in ("sw", "ew", "empty", "bar", "cmt")]
        for b in (self.sw, self.ew, self.empty, self.bar):
            sem.decls.append("(declare-const %s Bool)" % b)
        self.cmt_tag = sem.sym_int(self.cmt, "isize", 0, 1)
        self.len = sem.sym_int("l%d_len" % j, "usize", 0, 10 ** 6)
        # what is true of every string: empty <=> length 0; an empty line neither starts with `[` nor ends with `]`;
        # `[`...`]` needs two characters
        sem.decls.append("(assert (= %s (= %s 0)))" % (self.empty, self.len))
        sem.decls.append("(assert (=> %s (and (not %s) (not %s))))" % (self.empty, self.sw, self.ew))
        sem.decls.append("(assert (=> (and %s %s) (>= %s 2)))" % (self.sw, self.ew, self.len))
        self.nid = sem.sym_int("l%d_nid" % j, "isize", 0, 9)
        self.pieces = [Opaque("piece %d of line %d" % (m, j)) for m in range(npieces)]
        self.tpieces = [Opaque("trimmed piece %d of line %d" % (m, j)) for m in range(npieces)]
        self.pids = [sem.sym_int("l%d_p%d" % (j, m), "isize", 0, 9) for m in range(npieces)]
        # identity of the UNtrimmed pieces: equal raw text has equal trimmed text, not the other way round
        self.rpids = [sem.sym_int("l%d_rp%d" % (j, m), "isize", 0, 19) for m in range(npieces)]
        # the line trimmed BEFORE its comment is cut off (an order the code may choose): what is left of the comment may end in blanks
        self.trimmed_first = Opaque("line %d trimmed, comment still on" % j)
        self.tf_nocomment = Opaque("line %d trimmed, then cut at the comment" % j)
        self.ws_before_cmt = "l%d_wsc" % j
        sem.decls.append("(declare-const %s Bool)" % self.ws_before_cmt)
        self.header = "(and %s %s)" % (self.sw, self.ew)
        # where the pieces of the line sit in the input (byte offsets): needed by calc_span's pointer arithmetic
        iv = lambda n: sem.sym_int("l%d_%s" % (j, n), "usize", 0, 10 ** 6)
        self.off, self.rawlen, self.nclen, self.toff = iv("off"), iv("rawlen"), iv("nclen"), iv("toff")
        A = lambda c_: sem.decls.append("(assert %s)" % c_)
        A("(<= %s %s)" % (self.nclen, self.rawlen))                                      # the comment-free part is a prefix of the line
        A("(=> (= %s 0) (= %s %s))" % (self.cmt, self.nclen, self.rawlen))
        A("(and (>= %s %s) (<= (+ %s %s) (+ %s %s)))" % (self.toff, self.off, self.toff, self.len, self.off, self.nclen))   # trimmed part inside it
        self.poff = [iv("poff%d" % m) for m in range(npieces)]
        self.plen = [iv("plen%d" % m) for m in range(npieces)]
        self.tpoff = [iv("tpoff%d" % m) for m in range(npieces)]
        self.tplen = [iv("tplen%d" % m) for m in range(npieces)]
        for m in range(npieces):
            # pieces tile the trimmed line, separated by one `|`; each trimmed piece lies inside its piece
            A("(= %s %s)" % (self.poff[m], self.toff if m == 0 else "(+ %s %s 1)" % (self.poff[m - 1], self.plen[m - 1])))
            A("(and (>= %s %s) (<= (+ %s %s) (+ %s %s)))" % (self.tpoff[m], self.poff[m], self.tpoff[m], self.tplen[m], self.poff[m], self.plen[m]))
        A("(= (+ %s %s) (+ %s %s))" % (self.poff[-1], self.plen[-1], self.toff, self.len))
        self.geom = {}     # token -> (offset term, length term)


def m_part(run, scr, nat):
    ms = mcheck.MSession(run, scr)
    dump = ms.load_mir()
    decls = ms.decls
    f = dump.find(r"^aisle::parse$")
    run.functions.append("aisle::parse (MIR; lines abstract, loops unrolled by the line and piece counts)")
    shapes = [[1, 1], [1, 2, 1]] if run.tier == "quick" else [[1, 1], [1, 2, 1], [2, 1, 1, 1], [1, 1, 2]]
    enames = [v for v, _ in decls.enums["AisleConfError"]]
    catf = decls.structs.lookup("Category", "aisle")
    ingf = decls.structs.lookup("Ingredient", "aisle")
    conff = decls.structs["AisleConf"]
    for shape in shapes:
        k = len(shape)
        sem = smt.RealSem(prefix="a%d" % k)
        mods = dict(models.STD_MODELS)
        mods.update(models.MORE_MODELS)
        mods.update(models.VEC_MODELS)
        mods.update(models.RESULT_MODELS)
        it = mir.Interp(dump, decls, sem, models=mods, max_paths=60000)
        it.models.update(models.CLOSURE_MODELS)
        L = [Line(sem, j, shape[j]) for j in range(k)]
        input_tok = Opaque("the input")
        input_len = sem.sym_int("input_len", "usize", 0, 10 ** 7)
        base = sem.sym_int("input_ptr", "usize", 1, 2 ** 40)
        geom = [(input_tok, "0", input_len)]
        for l in L:
            geom += [(l.raw, l.off, l.rawlen), (l.nocomment, l.off, l.nclen), (l.trimmed, l.toff, l.len), (l.name, "(+ %s 1)" % l.toff, "(- %s 2)" % l.len)]
            geom += [(l.trimmed_first, l.toff, "(- (+ %s %s) %s)" % (l.off, l.rawlen, l.toff)), (l.tf_nocomment, l.toff, "(- (+ %s %s) %s)" % (l.off, l.nclen, l.toff))]
            geom += [(l.pieces[m], l.poff[m], l.plen[m]) for m in range(len(l.pieces))] + [(l.tpieces[m], l.tpoff[m], l.tplen[m]) for m in range(len(l.pieces))]
            # lines follow each other, separated by a line terminator, inside the input (the last one may end the input)
            sem.decls.append("(assert (>= %s %s))" % (l.off, "0" if l.j == 0 else "(+ %s %s 1)" % (L[l.j - 1].off, L[l.j - 1].rawlen)))
            sem.decls.append("(assert (<= (+ %s %s) %s))" % (l.off, l.rawlen, input_len))

        def geometry(tok):
            for t, o_, n_ in geom:
                if t is tok:
                    return o_, n_
            raise mir.Unsupported("no position known for %r" % (tok,))

        allp = [(l, m) for l in L for m in range(len(l.pieces))]
        for (a_, ma) in allp:
            for (b_, mb) in allp:
                if (a_.j, ma) < (b_.j, mb):
                    sem.decls.append("(assert (=> (= %s %s) (= %s %s)))" % (a_.rpids[ma], b_.rpids[mb], a_.pids[ma], b_.pids[mb]))

        def line_of(tok, kinds=("raw", "nocomment", "trimmed")):
            for l in L:
                for kd in kinds:
                    if getattr(l, kd) is tok:
                        return l
            return None

        def ident(tok):
            """SMT identity of a name token"""
            for l in L:
                if l.name is tok:
                    return l.nid
                for m, t in enumerate(l.tpieces):
                    if t is tok:
                        return l.pids[m]
                for m, t in enumerate(l.pieces):
                    if t is tok:
                        return "(+ 100 %s)" % l.rpids[m]       # raw pieces live in their own identity space
            raise mir.Unsupported("identity of %r" % (tok,))

        def need(l, what):
            if l is None:
                raise mir.Unsupported("%s on an unexpected string" % what)
            return l

        def v(x):
            return it.deref(x, it.cur_env) if not isinstance(x, (Opaque, SV, Agg, Enum, VecVal, MapVal)) else x

        def m_split_once(it_, a, c_):
            tok = v(a[0])
            l = line_of(tok, ("raw",))
            if l is not None:
                return models.mk_option(it_, SV("isize", l.cmt_tag), Agg("tuple", {"0": l.nocomment, "1": Opaque("comment of line %d" % l.j)}))
            l = need(line_of(tok, ("trimmed_first",)), "split_once")
            return models.mk_option(it_, SV("isize", l.cmt_tag), Agg("tuple", {"0": l.tf_nocomment, "1": Opaque("comment of line %d" % l.j)}))

        def m_trim_ascii(it_, a, c_):
            tok = v(a[0])
            l = line_of(tok, ("nocomment",))
            if l is not None:
                return l.trimmed                 # comment cut first, then trimmed: the documented reading
            l = line_of(tok, ("raw",))
            if l is not None:
                # trimming the raw line: the same as the documented reading when there is no comment
                return [(["(= %s 0)" % l.cmt], l.trimmed, "return", None), (["(= %s 1)" % l.cmt], l.trimmed_first, "return", None)]
            l = need(line_of(tok, ("tf_nocomment", "trimmed_first")), "trim_ascii")
            return l.trimmed

        def facts(tok):
            """(line, starts-with-[ , ends-with-] , empty) of a candidate 'line' string"""
            l = line_of(tok, ("trimmed",))
            if l is not None:
                return l, l.sw, l.ew, l.empty
            l = need(line_of(tok, ("tf_nocomment", "trimmed_first")), "line test")
            # cut at the comment but not trimmed again: blanks before the comment are still there
            blank = "(and %s %s)" % (l.empty, "true")
            return l, l.sw, "(and %s (not %s))" % (l.ew, l.ws_before_cmt), "(and %s (not %s))" % (l.empty, l.ws_before_cmt)

        def m_index_range(it_, a, c_):
            l = need(line_of(v(a[0]), ("trimmed",)), "slice")
            rng = v(a[1])
            lo, hi = rng.fields["0"], rng.fields["1"]
            ok = "(and (= %s 1) (= %s (- %s 1)))" % (lo.expr, hi.expr, l.len)
            return [([ok], l.name, "return", None), (["(not %s)" % ok], None, "panic", "slice bounds other than 1..len-1")]

        def m_set_get(it_, a, c_):
            st, tok = v(a[0]), v(a[1])
            out, misses = [], []
            for (member, _) in st.entries:
                e = "(= %s %s)" % (ident(member), ident(tok))
                out.append((misses + [e], it_._mk_enum("Option", "Some", [member]), "return", None))
                misses = misses + ["(not %s)" % e]
            out.append((misses, it_._mk_enum("Option", "None", []), "return", None))
            return out

        def m_set_insert(it_, a, c_):
            st, tok = v(a[0]), v(a[1])
            env2 = fork_env(it_.cur_env)
            it_.write_ref(a[0], MapVal(st.entries + [(tok, Opaque("unit"))]), env2)
            return [([], SV("bool", "true"), "return", None, {"env": env2})]

        def m_set_extend(it_, a, c_):
            """`HashSet<&str>::extend(iter)`: every item of the iterator becomes a member, in order"""
            st = v(a[0])
            toks = [v(x) for x in models._iter_items(it_, a[1])]
            env2 = fork_env(it_.cur_env)
            it_.write_ref(a[0], MapVal(st.entries + [(t, Opaque("unit")) for t in toks]), env2)
            return [([], Opaque("unit"), "return", None, {"env": env2})]

        def m_opt_replace(it_, a, c_):
            old = v(a[0])
            env2 = fork_env(it_.cur_env)
            it_.write_ref(a[0], it_._mk_enum("Option", "Some", [v(a[1])]), env2)
            return [([], old, "return", None, {"env": env2})]

        def m_trim(it_, a, c_):
            tok = v(a[0])
            for l in L:
                for m, p_ in enumerate(l.pieces):
                    if p_ is tok:
                        return l.tpieces[m]
            raise mir.Unsupported("trim of %r" % (tok,))
        it.fn_item = lambda path: (m_trim if path.endswith("::trim") else None)
        mine = {
            r"^core::str::<impl str>::lines$": lambda it_, a, c_: models.IterVal([l.raw for l in L]),
            r"^<std::str::Lines<'_> as IntoIterator>::into_iter$": models.m_identity,
            r"^<std::str::Lines<'_> as Iterator>::next$": models.m_iter_next,
            r"^core::str::<impl str>::split_once::<&str>$": m_split_once,
            r"^core::str::<impl str>::trim_ascii$": m_trim_ascii,
            r"^core::str::<impl str>::starts_with::<char>$": lambda it_, a, c_: SV("bool", facts(v(a[0]))[1]),
            r"^core::str::<impl str>::ends_with::<char>$": lambda it_, a, c_: SV("bool", facts(v(a[0]))[2]),
            r"^core::str::<impl str>::len$": lambda it_, a, c_: SV("usize", sem.define("Int", geometry(v(a[0]))[1], "len")),
            r"^core::str::<impl str>::as_ptr$": lambda it_, a, c_: SV("usize", sem.define("Int", "(+ %s %s)" % (base, geometry(v(a[0]))[0]), "ptr")),
            r"^std::ptr::const_ptr::<impl \*const u8>::add$": lambda it_, a, c_: SV("usize", "(+ %s %s)" % (a[0].expr, a[1].expr)),
            r"^std::ptr::const_ptr::<impl \*const u8>::offset_from$": lambda it_, a, c_: SV("isize", "(- %s %s)" % (a[0].expr, a[1].expr)),
            r"^core::str::<impl str>::is_empty$": lambda it_, a, c_: SV("bool", facts(v(a[0]))[3]),
            r"^<str as (std::ops::)?Index<(std::ops::)?Range<usize>>>::index$": m_index_range,
            r"^core::str::<impl str>::contains::<char>$": lambda it_, a, c_: SV("bool", [l for l in L if l.name is v(a[0])][0].bar),
            r"^core::str::<impl str>::split::<char>$": lambda it_, a, c_: models.IterVal(list(need(line_of(v(a[0]), ("trimmed",)), "split").pieces)),
            r"^<std::str::Split<'_, char> as IntoIterator>::into_iter$": models.m_identity,
            r"^<std::str::Split<'_, char> as Iterator>::next$": models.m_iter_next,
            r"^<std::str::Split<'_, char> as Iterator>::map::<": models.m_iter_map,
            r"^<std::iter::Map<std::str::Split<'_, char>, .*> as Iterator>::collect::<Vec<&str>>$": models.m_iter_collect,
            r"^core::str::<impl str>::trim$": m_trim,
            r"^(std::collections::)?HashSet::<&str>::new$": lambda it_, a, c_: MapVal([]),
            r"^(std::collections::)?HashSet::<&str>::get::<str>$": m_set_get,
            r"^(std::collections::)?HashSet::<&str>::insert$": m_set_insert,
            r"^<(std::collections::)?HashSet<&str> as (std::iter::)?Extend<&str>>::extend::<": m_set_extend,
            r"^std::option::Option::<Category<'_>>::replace$": m_opt_replace,
            r"^<str as ToString>::to_string$": models.m_identity,
            r"^(std::cell::)?Cell::<usize>::new$": models.m_opaque,
        }
        mine.update({k_: v_ for k_, v_ in it.models.items() if k_ not in mine})
        it.models = mine
        outs = it.run(f, [input_tok])
        D = sem.decls
        tag = "aisle::parse on %d lines (%s pieces)" % (k, "/".join(str(x) for x in shape))
        items = []
        n_ok = n_err = 0
        ingredient_line = lambda l: "(and (not %s) (not %s))" % (l.header, l.empty)
        # documented defects, as conditions over the abstract file
        first_is_ingredient = c08_disj(["(and %s %s)" % (ingredient_line(l), c08.conj(["(not %s)" % p.header for p in L[:l.j]])) for l in L])
        bad_name = c08_disj(["(and %s %s)" % (l.header, l.bar) for l in L])
        dup_cat = c08_disj(["(and %s %s (= %s %s))" % (a.header, b.header, a.nid, b.nid) for a in L for b in L if a.j < b.j])
        pcs_all = [(l, m) for l in L for m in range(len(l.pieces))]
        dup_ing = c08_disj(["(and %s %s (= %s %s))" % (ingredient_line(a), ingredient_line(b), a.pids[ma], b.pids[mb])
                            for (a, ma) in pcs_all for (b, mb) in pcs_all if (a.j, ma) < (b.j, mb)])
        defect = c08_disj([first_is_ingredient, bad_name, dup_cat, dup_ing])
        for o in outs:
            p = ">".join(o.trace[-2:])
            pcs = mcheck.pc_assert(o.pc)
            if o.kind == "panic":
                items.append(("%s never panics: %s" % (tag, str(o.msg)[:40]), pcs, "unsat"))
                continue
            if o.kind != "return":
                continue
            res = o.value
            if "Err" in res.variants:
                n_err += 1
                err = res.variants["Err"].fields["0"]
                en = enames[int(err.discr.expr)] if isinstance(err, Enum) and re.match(r"^\d+$", err.discr.expr) else None
                want = {"Parse": c08_disj([first_is_ingredient, bad_name]), "DuplicateCategory": dup_cat, "DuplicateIngredient": dup_ing}.get(en, "false")
                # every span carried by the error lies inside the input
                spans = []

                def collect(v_, depth=0):
                    if isinstance(v_, Agg) and v_.ty == "Span":
                        spans.append(v_)
                    elif isinstance(v_, (Agg, Enum)) and depth < 4:
                        for sub in (v_.fields.values() if isinstance(v_, Agg) else v_.variants.values()):
                            collect(sub, depth + 1)
                collect(err)
                inside = c08.conj(["(and (<= %s %s) (<= %s %s))" % (sp.fields["0"].expr, sp.fields["1"].expr, sp.fields["1"].expr, input_len) for sp in spans
                                   if isinstance(sp.fields.get("0"), SV) and isinstance(sp.fields.get("1"), SV)])
                want_n = {"Parse": 1, "DuplicateCategory": 2, "DuplicateIngredient": 2}.get(en, 0)
                items.append(("%s path[%s]: the spans of the error (%d) lie inside the input, start <= end" % (tag, p, want_n), pcs +
                              ["(not %s)" % inside if len(spans) == want_n else "true"], "unsat"))
                items.append(("%s path[%s]: a file is refused only for a documented defect, and with the error that names it "
                              "(ingredient before any category / `|` in a category name | duplicate category | duplicate ingredient name)" % (tag, p),
                              pcs + ["(not %s)" % want], "unsat"))
                continue
            n_ok += 1
            conf = res.variants["Ok"].fields["0"]
            cats = conf.fields[str(conff.index("categories"))]
            conds = ["(not %s)" % defect]
            ok_shape = isinstance(cats, VecVal)
            listed_hdr, listed_ing = [], []
            if ok_shape:
                prev = -1
                for ci, cat in enumerate(cats.items):
                    hl = [l for l in L if l.name is cat.fields[str(catf.index("name"))]]
                    ings = cat.fields[str(catf.index("ingredients"))]
                    if len(hl) != 1 or hl[0].j <= prev or not isinstance(ings, VecVal):
                        ok_shape = False
                        break
                    h = hl[0]
                    prev = h.j
                    listed_hdr.append(h.j)
                    conds.append(h.header)
                    lastl = h.j
                    for ing in ings.items:
                        names = ing.fields[str(ingf.index("names"))]
                        ll = [l for l in L if isinstance(names, VecVal) and len(names.items) == len(l.tpieces) and all(a is b for a, b in zip(names.items, l.tpieces))]
                        if len(ll) != 1 or ll[0].j <= lastl:
                            ok_shape = False
                            break
                        lastl = ll[0].j
                        listed_ing.append((h.j, ll[0].j))
                        conds.append(ingredient_line(ll[0]))
                    if not ok_shape:
                        break
            if not ok_shape:
                items.append(("%s path[%s]: the result lists categories and ingredient lines of the file, in file order, names trimmed" % (tag, p), pcs, "unsat"))
                continue
            # every header is listed; every ingredient line is listed under the nearest header above it; everything else is blank
            for l in L:
                if l.j not in listed_hdr:
                    conds.append("(not %s)" % l.header)
                mine_ = [hj for (hj, lj) in listed_ing if lj == l.j]
                if mine_:
                    above = [hj for hj in listed_hdr if hj < l.j]
                    conds.append("true" if (above and mine_[0] == max(above)) else "false")
                elif l.j not in listed_hdr:
                    conds.append(l.empty)
            items.append(("%s path[%s]: an accepted file has none of the documented defects (so no category and no ingredient name occurs twice), and "
                          "the result holds its categories in file order, each with the ingredient lines below it, names trimmed and in order; "
                          "blank and comment-only lines contribute nothing" % (tag, p), pcs + ["(not (and %s))" % " ".join(conds)], "unsat"))
        if n_ok == 0 or n_err == 0:
            run.inconclusive.append("%s: expected accepting and refusing paths, found %d / %d" % (tag, n_ok, n_err))

        def on_sat(name):
            def cb(model, ob, item):
                bad = aisle_vectors(run, nat)
                if bad:
                    run.violation("kernel=aisle::parse", bad, dict(engine="mir-smt", replay="aisle"))
                    ob["status"] = "violated"
                else:
                    run.inconclusive.append("C11 %s: candidate does not reproduce through the public API" % name[:90])
            return cb
        b = mcheck.Batch(ms, "c11-%d" % k, list(D), timeout_s=60 if run.tier == "quick" else 300)
        for name, asserts, expect in items:
            b.add(name, asserts, expect, (), on_sat(name))
        b.run()
        if items:
            run.samples.append({"engine": "mir-smt", "obligation": items[-1][0]})
    run.assumptions += [
        "the input is k lines (2-3 quick, up to 4 thorough) with 1-2 `|`-separated pieces each; per line the observable facts (starts with `[`, ends "
        "with `]`, empty, `|` inside the bracketed name, has a `//` comment) and the identities of the names are symbolic",
        "str primitives are modelled on these abstract lines; a line that starts with `[` and ends with `]` has at least two characters; "
        "HashSet<&str> membership is identity of the abstract names; every abstract piece of text carries a symbolic byte offset and length "
        "consistent with how it was cut out of the input (prefix / inside / tiling with one separator), so calc_span's pointer arithmetic and its "
        "assertions are executed, not abstracted",
    ]
    run.bounds.append("M: aisle::parse, loops unrolled by the line and piece counts of each shape")
    ms.close()


def c08_disj(xs):
    xs = [x for x in xs if x != "false"]
    if not xs:
        return "false"
    return xs[0] if len(xs) == 1 else "(or %s)" % " ".join(xs)


AISLE_CASES = [
    # (text, expected: list of [category, [[names]]] or the error kind)
    ("[dairy]\nmilk | whole milk\nbutter\n\n// comment\n[produce] // trailing\n  apple|apples  \n", [["dairy", [["milk", "whole milk"], ["butter"]]], ["produce", [["apple", "apples"]]]]),
    ("", []),
    ("[a]\n[b]\nx\n", [["a", []], ["b", [["x"]]]]),
    ("x\n[a]\n", "Parse"),
    ("[a|b]\n", "Parse"),
    ("[a]\nx\n[a]\n", "DuplicateCategory"),
    ("[a]\nx|y\n[b]\ny\n", "DuplicateIngredient"),
    ("[a]\nx | x\n", "DuplicateIngredient"),
    ("[a]\n|", ("DuplicateIngredient", [["a", []]], [["a", [[]]]])),      # two empty names: refused today; dropping empty names would be fine too
    ("[a]\n[a]", "DuplicateCategory"),
]


def aisle_vectors(run, nat):
    for text, want in AISLE_CASES:
        r = nat.call("aisle", text.replace("\n", "\\n"))
        run.traces_validated += 1
        got = r.get("error_kind") if isinstance(r, dict) and r.get("error_kind") else (r.get("categories") if isinstance(r, dict) else None)
        if isinstance(r, dict) and r.get("error_kind") and r.get("span_ok") is False:
            return "aisle::parse(%r): the spans %r of the %s error do not lie inside the input / on the offending text" % (text, r.get("spans"), r.get("error_kind"))
        acceptable = list(want) if isinstance(want, tuple) else [want]
        if not isinstance(r, dict) or r.get("panic") or "error" in r or got not in acceptable:
            return "aisle::parse(%r) = %r, documented: %r" % (text, r if not isinstance(r, dict) or "error" in r or r.get("panic") else got, want)
    return None


def check(run):
    scr = scratch.Scratch()
    scr.copy_repo()
    scr.inject()
    nat = native.Native(scr)
    nat.build(log=os.path.join(run.logdir, "native-build.log"))
    try:
        m_part(run, scr, nat)
    except mir.Unsupported as e:
        run.inconclusive.append("encoder: %s" % e)
    bad = aisle_vectors(run, nat)
    if bad and not run.violations:
        run.violation("validation-vector aisle", bad, dict(engine="validation-vector", replay="aisle"))
    run.not_covered += [
        "the write -> parse round trip (io::Write formatting), AisleConf::ingredients_info / the reverse lookup",
        "the str primitives themselves (they are std) and files of more than 4 lines / 2 names per line",
    ]


def replay(run, path):
    scr = scratch.Scratch()
    scr.copy_repo()
    scr.inject()
    nat = native.Native(scr)
    nat.build()
    bad = aisle_vectors(run, nat)
    print("replay:", bad or "every aisle case as documented")
    if bad:
        print("VIOLATION property=C11 replay=%s" % path)
        return 1
    return 0
