"""C03 - no input makes a public entry point panic, overflow or hang: the arithmetic / state kernels only.

The property quantifies over all UTF-8 inputs of every entry point; neither engine can take that quantifier
(DESIGN 1, 6).  What is decided here is absence of panics, failed assertions (debug ones included), arithmetic
overflow and - through unwinding assertions - bounded termination for the kernels the property's anchors name
that do not sit behind the lexer.
"""
import os, json
import scratch, kani_group, registry, native, mir
import c08, c10


def check(run):
    scr = scratch.Scratch()
    scr.copy_repo()
    missing = scr.inject()
    if missing:
        run.inconclusive.append("source files missing for injection: %s" % missing)
    nat = native.Native(scr)
    nat.build(log=os.path.join(run.logdir, "native-build.log"))
    tab = nat.call("table")
    if "error" not in tab:
        with open(os.path.join(scr.gen, "fraction_table.rs"), "w") as f:
            f.write("vec![%s]" % ", ".join("(%di16, (%du8, %du8))" % (k, n, d) for k, n, d in tab["table"]))
    only = os.environ.get("VERIF_ONLY", "")
    if only in ("", "M"):
        for mod, what in ((c10, "try_add / GroupedValue::add (expect on non-text add)"), (c08, "scale kernels")):
            mod.PANIC_ONLY = True
            try:
                mod.m_part(run, scr, nat)
            except mir.Unsupported as e:
                run.inconclusive.append("encoder (%s): %s" % (what, e))
            finally:
                mod.PANIC_ONLY = False
    if only in ("", "A"):
        # the analysis pass's component handlers never panic / fail an assertion (debug ones included) from any event and valid state
        import analysis
        analysis.run_for(run, scr, nat, "C03")
    if only in ("", "K"):
        kani_group.run_group(run, scr, registry.select("C03", run.tier))
    run.assumptions += ["kernels are driven from arbitrary valid states / symbolic arguments, not from parsed text"]
    run.not_covered += [
        "lexer, block splitter, step parser, quantity parser, front matter, AST builder (todo!() on front matter), report rendering through codesnake, "
        "the block state machine of the analysis pass beyond its event loop, metadata / front-matter handling, serde: everything behind symbolic text is OUTSIDE this claim (DESIGN 6)",
        "BlockParser::text with more than one token of symbolic length (CBMC exhausts memory)",
    ]


def replay(run, path):
    obj = json.load(open(path))
    scr = scratch.Scratch()
    scr.copy_repo()
    scr.inject()
    if obj.get("engine") == "kani":
        st = kani_group.replay(run, scr, path)
        print("replay: %s" % st)
        if st == "failed":
            print("VIOLATION property=C03 replay=%s" % path)
            return 1
        return 0 if st == "passed" else 2
    nat = native.Native(scr)
    nat.build()
    if obj.get("replay") == "structure":
        import analysis
        return analysis.replay_structure(nat, "C03", path)
    r = nat.call("group_scenario", *obj["args"]) if obj.get("replay") == "group_scenario" else nat.call("scale_scenario", *obj["args"])
    print("replay:", r)
    if r.get("problems") or "error" in r:
        print("VIOLATION property=C03 replay=%s" % path)
        return 1
    return 0
