"""C12 - fraction approximation never misstates a value.

K-0  native dump of the lookup table built by the real constructor + closed-term checks
K-1  Kani: contract of FractionLookupTable::lookup on that table
K-2  Kani: structure of Number::new_approx, bit-precise, all inputs / parameters
M-1  MIR->SMT (real+delta): error within accuracy; Number::value(result) == input up to rounding
"""
import os, json
from fractions import Fraction
import scratch, kani_group, registry, native, mcheck, mir, smt, models
from mir import SV, Agg, Enum

U = Fraction(1, 2 ** 53)
DOC_DENOMS = [2, 3, 4, 5, 8, 10, 16, 32, 64]


def table_checks(run, tab):
    """closed-term facts about the table the real constructor produced (single concrete value)"""
    rows = tab["table"]
    ok = True
    problems = []
    keys = [r[0] for r in rows]
    if keys != sorted(keys) or len(set(keys)) != len(keys):
        problems.append("keys not strictly increasing")
    for k, n, d in rows:
        if not (0 < n < d):
            problems.append("entry %d/%d is not a proper fraction" % (n, d))
        if d not in DOC_DENOMS:
            problems.append("denominator %d is not one of the documented denominators %s" % (d, DOC_DENOMS))
        if int(Fraction(n, d) * int(tab["fix_ratio"])) != k:
            problems.append("key %d does not encode %d/%d" % (k, n, d))
    # each value appears with its smallest denominator
    for k, n, d in rows:
        fr = Fraction(n, d)
        if fr.denominator != d and fr.denominator in tab["denoms"]:
            problems.append("%d/%d is not in lowest supported terms" % (n, d))
    # completeness: every proper fraction of every configured denominator is represented by its value
    vals = {Fraction(n, d) for _, n, d in rows}
    for d in tab["denoms"]:
        for n in range(1, d):
            if Fraction(n, d) not in vals:
                problems.append("%d/%d missing from the table" % (n, d))
    run.add_obligation("K-0 table closed-term facts", "native", "holds" if not problems else "violated",
                       entries=len(rows), problems=problems)
    run.vccs += len(rows)
    run.traces_validated += 1
    return problems


def lookup_model_factory(sem):
    """FractionLookupTable::lookup replaced by its Kani-checked contract (K-1): assume/guarantee."""
    memo = {}

    def model(it, args, callee):
        if "v" not in memo:
            tag = sem.sym_int("lk_tag", "isize", 0, 1)
            n = sem.sym_int("lk_n", "u8", 1, 63)
            d = sem.sym_int("lk_d", "u8", 2, 64)
            memo["max_den"] = args[2].expr
            sem.decls.append("(assert (< lk_n lk_d))")
            sem.decls.append("(assert (<= lk_d %s))" % args[2].expr)
            memo["v"] = Enum("Option", SV("isize", tag),
                             {"None": Agg("Option::None", {}),
                              "Some": Agg("Option::Some", {"0": Agg("tuple", {"0": SV("u8", n), "1": SV("u8", d)})})},
                             ["None", "Some"])
        return memo["v"]
    return model


def m_part(run, scr, nat):
    ms = mcheck.MSession(run, scr)
    dump = ms.load_mir()
    decls = ms.decls
    sem = smt.RealSem(abstract_products=True)
    mods = dict(models.STD_MODELS)
    mods[r"FractionLookupTable::lookup$"] = lookup_model_factory(sem)
    it = mir.Interp(dump, decls, sem, models=mods)
    f_new = dump.find_impl_method("new_approx", r"_1: f64, _2: f32, _3: u8, _4: u32")
    f_val = dump.find_impl_method("value", r"\(_1: quantity::Number\) -> f64")
    run.functions += ["quantity::Number::new_approx (MIR)", "quantity::Number::value (MIR)"]
    X_LO, X_HI = Fraction(1, 10 ** 10), Fraction(43 * 10 ** 8)
    x = sem.sym_float("x", X_LO, X_HI)
    acc = sem.sym_float("acc", 0, 1)
    md = sem.sym_int("md", "u8", 0, 64)
    mw = sem.sym_int("mw", "u32")
    INPUTS = ["x", "acc", "md", "mw"]
    run.assumptions += [
        "M-1: value in [1e-10, 4.3e9] (for smaller positive values new_approx returns Regular(value) or None - covered "
        "bit-precisely by K-2); accuracy any real in [0,1] (superset of the f32 values); max_den in 0..=64; max_whole any u32",
        "M-1: lookup() replaced by its contract 1 <= n < d <= max_den (decided by Kani harness c12_lookup_contract)",
        "real+delta float model: each Add/Sub/Mul/Div result = exact + e, |e| <= 2^-53*|exact| (x+0, x/1 exact); "
        "no overflow/underflow on the stated ranges",
        "products/quotients of two symbolic terms (accuracy*value, num/den) are relaxed to fresh variables with the sign and "
        "magnitude facts of real multiplication (sound relaxation; candidate models are refined with exact products before replay)",
    ]
    outs = it.run(f_new, [SV("f64", x), SV("f32", acc), SV("u8", md), SV("u32", mw)])
    fr_fields = dict(decls.enums["Number"])["Fraction"]
    ix = {k: str(fr_fields.index(k)) for k in ("whole", "num", "den", "err")}
    # compose Number::value on every returned fraction before declaring anything to the solver
    results = []
    value_panics = []
    for o in outs:
        if o.kind == "return" and isinstance(o.value, Enum) and "Some" in o.value.variants:
            num = o.value.variants["Some"].fields["0"]
            all_back = it.run(f_val, [num])
            for bp in all_back:
                if bp.kind == "panic":
                    value_panics.append((o, bp))
            back = [b for b in all_back if b.kind == "return"]
            if len(back) != 1:
                raise mir.Unsupported("Number::value on a concrete variant should have one path, got %d" % len(back))
            results.append((o, num, back[0]))
        else:
            results.append((o, None, None))
    run.bounds.append("M-1: loop-free CFGs, all %d paths of new_approx enumerated, no unrolling bound" % len(outs))
    max_err = sem.product("Mul", "acc", "x")   # the same (memoised) term the encoding of `accuracy as f64 * value` uses
    D = list(sem.decls)
    also = ("z3",) if run.tier == "thorough" else ()
    fetch = INPUTS + [a for (_, _, a, _) in sem.abstractions] + [b for (_, op, _, b) in sem.abstractions if op == "Div"]
    batch = mcheck.Batch(ms, "c12", D, timeout_s=120 if run.tier == "quick" else 600, deltas=sem.deltas)

    def on_sat(what):
        def cb(model, ob, item):
            cands = []
            if item.get("strong"):
                v, m, dt, errs = mcheck.solve_file(ms.primary, D, item["strong"], fetch, 60,
                                                   os.path.join(run.logdir, "strong.smt2"))
                if v == "sat":
                    m2 = mcheck.refine(ms, sem, D, item["strong"], m, INPUTS)
                    if m2:
                        cands.append(m2)
            m2 = mcheck.refine(ms, sem, D, item["asserts"], model, INPUTS)
            if m2:
                cands.append(m2)
            for asserts_ in ([item["strong"]] if item.get("strong") else []) + [item["asserts"]]:
                m3 = mcheck.refine_exact(ms, sem, D, asserts_, model, INPUTS, pin=["md", "mw", "lk_n", "lk_d", "lk_tag"])
                if m3:
                    cands.append(m3)
            if not cands:
                run.inconclusive.append("C12 %s: candidate model could not be refined to exact products: %s" % (what, ob.get("model")))
                return
            confirm(run, nat, what, cands, ob)
        return cb

    for (o, bp) in value_panics:
        batch.add("Number::value of a returned number never panics / overflows (%s): path[%s]" % (str(bp.msg)[:40], ">".join(o.trace[-2:])),
                  mcheck.pc_assert(o.pc) + mcheck.pc_assert(bp.pc), "unsat", fetch, on_sat("exactness"), also)
    n_frac = 0
    for i, (o, num, back) in enumerate(results):
        pcs = mcheck.pc_assert(o.pc)
        path = "path%d[%s]" % (i, ">".join(o.trace[-3:]))
        if o.kind == "panic":
            batch.add("no panic on valid parameters: %s %s" % (path, o.msg), pcs, "unsat", fetch, on_sat("no-panic"), also)
            continue
        if o.kind != "return" or num is None:
            continue
        if "Regular" in num.variants:
            r = num.variants["Regular"].fields["0"].expr
            batch.add("Regular result is the input itself: " + path, pcs + ["(not (= %s x))" % r], "unsat", fetch, on_sat("regular"), also)
            continue
        f = num.variants["Fraction"].fields
        whole, nn, dd, err = f[ix["whole"]].expr, f[ix["num"]].expr, f[ix["den"]].expr, f[ix["err"]].expr
        n_frac += 1
        batch.add("reachable: " + path, pcs, "sat")
        struct = "(and (<= %s mw) (ite (= %s 0) (and (= %s 1) (>= %s 1)) (and (<= %s md) (< %s %s) (> %s 0))))" % (
            whole, nn, dd, whole, dd, nn, dd, nn)
        batch.add("structure (whole<=max_whole; num=0 => den=1,whole>=1; else 0<num<den<=max_den): " + path,
                  pcs + ["(not %s)" % struct], "unsat", fetch, on_sat("structure"), also)
        abs_err = sem.absx(err)
        batch.add("|err| <= accuracy*value*(1+4u): " + path,
                  pcs + ["(> %s (* %s %s))" % (abs_err, max_err, smt.rat(1 + 4 * U))], "unsat", fetch, on_sat("accuracy"), also,
                  strong=pcs + ["(> %s (+ (* %s 1.01) (* x 0.000001)))" % (abs_err, max_err)])
        absd = sem.absx("(- %s x)" % back.value.expr)
        batch.add("|Number::value(result) - value| <= 16u*value: " + path,
                  pcs + mcheck.pc_assert(back.pc) + ["(> %s (* x %s))" % (absd, smt.rat(16 * U))], "unsat", fetch,
                  on_sat("exactness"), also,
                  strong=pcs + mcheck.pc_assert(back.pc) + ["(> %s (* x 0.001))" % absd])
        if nn != "0":
            batch.add("twin: exactness with tolerance u/1000 must be refutable: " + path,
                      pcs + mcheck.pc_assert(back.pc) + ["(> %s (* x %s))" % (absd, smt.rat(U / 1000))], "sat")
    if n_frac < 2:
        run.inconclusive.append("M-1: expected at least two Fraction-returning paths in new_approx, found %d" % n_frac)
    batch.run()
    validate_translator(run, ms, sem, D, results, ix, nat)
    run.samples.append({"engine": "mir-smt", "kernel": "Number::new_approx o Number::value",
                        "obligation": "(assert <path condition>) (assert (> |value(result) - x| (* x 16u))) (check-sat) = unsat",
                        "paths": len(outs), "fraction_paths": n_frac})
    ms.close()


# the repo's own test vectors for new_approx (src/quantity.rs `fractions`, tests/fractions.rs) plus a few more
VECTORS = [(1.0, 0.05, 4, 4294967295), (1.00000000001, 0.05, 4, 4294967295), (0.01, 0.05, 4, 4294967295), (1.9999, 0.05, 4, 4294967295),
           (1.0001, 0.05, 4, 4294967295), (400.0001, 0.05, 4, 4294967295), (399.9999, 0.05, 4, 4294967295), (1.5, 0.05, 4, 4294967295),
           (0.2501, 0.05, 4, 4294967295), (3.5, 0.05, 8, 5), (5.3333, 0.05, 3, 4), (0.33, 0.1, 16, 0), (7.77, 0.0, 64, 10)]


def validate_translator(run, ms, sem, D, results, ix, nat):
    """Serval-style validation: push concrete vectors through the real function and through the encoding (inputs
    fixed, lookup fixed to what the real lookup returns) - exactly one path must be feasible and it must predict
    the same kind / whole / num / den, and err within 4 ulp-units."""
    import struct
    bad = 0
    for (x, acc, md, mw) in VECTORS:
        acc32 = struct.unpack("f", struct.pack("f", acc))[0]
        real = nat.call("new_approx", repr(x), repr(acc32), md, mw)
        frac = x - int(x)
        lk = nat.call("lookup", repr(frac), md) if frac >= 1e-10 else None
        fix = ["(= x %s)" % smt.rat(Fraction(x)), "(= acc %s)" % smt.rat(Fraction(acc32)), "(= md %d)" % md, "(= mw %d)" % mw]
        if lk:
            fix += ["(= lk_tag 1)", "(= lk_n %d)" % lk[0], "(= lk_d %d)" % lk[1]]
        else:
            fix += ["(= lk_tag 0)"]
        # product abstraction: restore the exact products for the fixed operands
        for (pv, op, a, b) in sem.abstractions:
            fix.append("(= %s (%s %s %s))" % (pv, "*" if op == "Mul" else "/", a, b))
        feasible = []
        for i, (o, num, back) in enumerate(results):
            v, m, dt, errs = mcheck.solve_file(ms.primary, D, mcheck.pc_assert(o.pc) + fix, [], 30,
                                               os.path.join(run.logdir, "validate.smt2"))
            if v == "sat":
                feasible.append((o, num))
        run.traces_validated += 1
        pred = None
        if len(feasible) == 1:
            o, num = feasible[0]
            if o.kind == "return" and num is None:
                pred = ("None",)
            elif o.kind == "return" and "Regular" in num.variants:
                pred = ("Regular",)
            elif o.kind == "return":
                f = num.variants["Fraction"].fields
                v, m, dt, errs = mcheck.solve_file(ms.primary, D, mcheck.pc_assert(o.pc) + fix,
                                                   [f[ix["whole"]].expr, f[ix["num"]].expr, f[ix["den"]].expr], 30,
                                                   os.path.join(run.logdir, "validate.smt2"))
                pred = ("Fraction", int(m.get(f[ix["whole"]].expr, -1)), int(m.get(f[ix["num"]].expr, -1)), int(m.get(f[ix["den"]].expr, -1)))
        got = ("None",) if real is None else (("Regular",) if real.get("kind") == "Regular" else ("Fraction", real["whole"], real["num"], real["den"]))
        if pred != got:
            bad += 1
            run.inconclusive.append("translator validation: new_approx%r: encoding predicts %s (feasible paths: %d), the real function returns %s" % (
                (x, acc, md, mw), pred, len(feasible), got))
    run.add_obligation("translator validation on %d concrete vectors (repo test inputs)" % len(VECTORS), "mir-smt+native",
                       "holds" if not bad else "inconclusive", vectors=len(VECTORS), disagreements=bad)
    run.vccs += len(VECTORS)


def confirm(run, nat, what, models_, ob):
    """replay candidate models on the real code (both profiles); only a reproduced failure is a violation.
    Solver models sit on decision boundaries, so each one is also replayed under small relative
    perturbations of value / accuracy - this only chooses where to look, the verdict of each point is
    the exact-rational postcondition on what the real function returned."""
    import struct
    tried = 0
    for model in models_:
        try:
            x0 = float(Fraction(model["x"]))
            acc0 = float(Fraction(model["acc"]))
            md = int(model["md"])
            mw = int(model["mw"])
        except Exception as e:
            run.inconclusive.append("C12 %s: model could not be decoded (%s): %s" % (what, e, model))
            continue
        for fx in (1.0, 1 - 1e-12, 1 + 1e-12, 1 - 1e-9, 1 + 1e-9, 1 - 1e-6, 1 + 1e-6, 1 - 1e-3, 1 + 1e-3, 0.99, 1.01):
            for fa in (1.0, 0.999, 1.001, 0.9):
                x = x0 * fx
                acc32 = struct.unpack("f", struct.pack("f", min(1.0, max(0.0, acc0 * fa))))[0]
                for profile in nat.bins:
                    r = nat.call("new_approx", repr(x), repr(acc32), md, mw, profile=profile)
                    tried += 1
                    bad = judge(x, acc32, md, mw, r)
                    if bad:
                        run.traces_validated += tried
                        key = "kernel=quantity::Number::new_approx obligation=%s" % bad[0]
                        run.violation(key, "new_approx(%r, %r, %d, %d) -> %s: %s" % (x, acc32, md, mw, bad[2], bad[1]),
                                      dict(engine="mir-smt", replay="new_approx", args=[repr(x), repr(acc32), md, mw],
                                           obligation=bad[0], profile=profile))
                        ob["status"] = "violated"
                        return
    run.traces_validated += tried
    run.inconclusive.append("C12 %s: solver models %s do not reproduce on the real code (%d native evaluations)" % (
        what, [{k: str(v) for k, v in m.items()} for m in models_], tried))


def judge(x, acc, md, mw, r):
    """exact-rational postcondition on a concrete native result; returns (obligation, text, result) or None"""
    if r is None:
        return None
    if "error" in r:
        return ("no-panic", "the real function panicked / failed: %s" % r["error"][-200:], r)
    X = Fraction(x)
    if r["kind"] == "Regular":
        if Fraction(r["v"]) != X:
            return ("regular", "plain number differs from the input", r)
        return None
    whole, num, den = r["whole"], r["num"], r["den"]
    err = Fraction(r["err"])
    if whole > mw:
        return ("structure", "whole part above the requested maximum", r)
    if num == 0:
        if den != 1 or whole < 1:
            return ("structure", "integer result must be whole>=1, den=1", r)
    else:
        if not (0 < num < den <= md) or den not in DOC_DENOMS:
            return ("structure", "fractional part is not a proper fraction with a supported denominator <= max_den", r)
    if abs(err) > Fraction(acc) * X * (1 + 4 * U):
        return ("accuracy", "recorded error %r exceeds accuracy*value" % r["err"], r)
    back = Fraction(r["value"])
    if abs(back - X) > 16 * U * X:
        return ("exactness", "Number::value(result) = %r differs from the input %r" % (r["value"], x), r)
    exact = Fraction(whole) + (Fraction(num, den) if den else 0) + err
    if abs(exact - X) > 16 * U * X:
        return ("exactness", "whole + num/den + err differs from the input", r)
    return None


def check(run):
    scr = scratch.Scratch()
    scr.copy_repo()
    missing = scr.inject()
    if missing:
        run.inconclusive.append("source files missing for injection: %s" % missing)
    nat = native.Native(scr)
    nat.build(log=os.path.join(run.logdir, "native-build.log"))
    tab = nat.call("table")
    if "error" in tab:
        raise Exception("table dump failed: %s" % tab)
    problems = table_checks(run, tab)
    if problems:
        run.violation("kernel=quantity::FractionLookupTable::new table", "; ".join(problems[:4]),
                      dict(engine="native", replay="table", table=tab))
    with open(os.path.join(scr.gen, "fraction_table.rs"), "w") as f:
        f.write("vec![%s]" % ", ".join("(%di16, (%du8, %du8))" % (k, n, d) for k, n, d in tab["table"]))
    run.stubs.append("FractionLookupTable::new -> the %d-entry table dumped from the real constructor by /verif/native" % len(tab["table"]))
    run.samples.append({"engine": "native", "table": tab["table"][:6], "entries": len(tab["table"])})
    only = os.environ.get("VERIF_ONLY", "")
    if only in ("", "M"):
        try:
            m_part(run, scr, nat)
        except mir.Unsupported as e:
            run.inconclusive.append("encoder: %s" % e)
    if only in ("", "K"):
        kani_group.run_group(run, scr, registry.select("C12", run.tier))
    run.not_covered += [
        "Display of fractions goes through core::fmt (outside reach); callers try_fraction/fit_fraction need a built Converter",
        "bit-precise (QF_FP) confirmation of the exactness identity: thorough tier only, per table entry",
    ]


def replay(run, path):
    obj = json.load(open(path))
    scr = scratch.Scratch()
    scr.copy_repo()
    scr.inject()
    if obj.get("engine") == "kani":
        st = kani_group.replay(run, scr, path)
        print("replay:", st)
        if st == "failed":
            print("VIOLATION property=C12 replay=%s" % path)
            return 1
        return 0 if st == "passed" else 2
    nat = native.Native(scr)
    nat.build()
    a = obj["args"]
    r = nat.call("new_approx", *a)
    bad = judge(float(a[0]), float(a[1]), int(a[2]), int(a[3]), r)
    print("replay: new_approx%r -> %s : %s" % (tuple(a), r, bad))
    if bad:
        print("VIOLATION property=C12 replay=%s" % path)
        return 1
    return 0
