"""C06 - the recipe model is referentially consistent (one kernel: intermediate-preparation references)."""
import scratch, kani_group, registry


def check(run):
    scr = scratch.Scratch()
    scr.copy_repo()
    missing = scr.inject()
    if missing:
        run.inconclusive.append("source files missing for injection: %s" % missing)
    run.assumptions += [
        "collector state built directly (fields of RecipeCollector), respecting its invariant step_counter = 1 + number of steps pushed",
        "val >= 0 (the parser never produces a negative value; the function asserts it)",
    ]
    run.not_covered += [
        "component index / back-link maintenance (ingredient(), resolve_reference, set_referenced_from): String names with unicase folding, growing vectors",
        "step numbering, non-empty sections / steps / text items, timers having a name or a quantity: need the event loop",
    ]
    kani_group.run_group(run, scr, registry.select("C06", run.tier))


def replay(run, path):
    scr = scratch.Scratch()
    scr.copy_repo()
    scr.inject()
    st = kani_group.replay(run, scr, path)
    print("replay: %s" % st)
    if st == "failed":
        print("VIOLATION property=C06 replay=%s" % path)
        return 1
    return 0 if st == "passed" else 2
