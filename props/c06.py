"""C06 - the recipe model is referentially consistent."""
import os, re, time
import scratch, kani_group, registry, mcheck, mir, smt, models, analysis
from mir import SV, Agg, Enum, Opaque, OpenAgg, VecVal


NUMBERING_CASES = [
    (">> [mode]: components\\n@flour{200%g}\\n\\n>> [mode]: default\\nMix the @&flour{}.\\n\\nBake.\\n", [[1, 2]]),
    ("Chop the @onion{}.\\n\\n>> [mode]: components\\n@salt{}\\n\\n@pepper{}\\n>> [mode]: default\\nSeason with @&salt{}.\\n", [[1, 2]]),
    ("= A\\nOne.\\n\\nTwo.\\n\\n= B\\nThree.\\n", [[1, 2], [1]]),
    ("Step.\\n\\n> note\\n\\nStep two.\\n\\nStep three.\\n", [[1, 2, 3]]),
    ("= Prep\\nChop.\\n\\n= Dough\\n>> [mode]: components\\n@flour{}\\n>> [mode]: default\\nMix the @&flour{}.\\n\\nKnead.\\n", [[1], [1, 2]]),
]


def judge_numbering(nat, profile="debug"):
    bad = []
    for text, want in NUMBERING_CASES:
        r = nat.call("step_numbers", text, profile=profile)
        got = [s for s in r.get("sections", []) if s] if isinstance(r, dict) else None
        if got != want:
            bad.append("%r: steps numbered %s, expected %s" % (text, r, want))
    return bad


def m_part(run, scr, nat):
    """step numbering: the event loop of RecipeCollector::parse_events over Start/End/Section events, from a collector
    state that satisfies `step_counter = 1 + steps already in the current section`"""
    ms = mcheck.MSession(run, scr)
    dump = ms.load_mir()
    decls = ms.decls
    f_pe = dump.find_impl_method("parse_events", r"_1: RecipeCollector<'_, '_>, _2: impl Iterator<Item = Event<'i>>")
    run.functions.append("analysis::RecipeCollector::parse_events (MIR; Start/End/Section handlers, loop unrolled by the event count)")
    rc = decls.structs["RecipeCollector"]
    recf = decls.structs["Recipe"]
    secf = decls.structs["Section"]
    stepf = decls.structs["Step"]
    ev_names = [v for v, _ in decls.enums["Event"]]
    bk_names = [v for v, _ in decls.enums["BlockKind"]]
    dm_names = [v for v, _ in decls.enums["DefineMode"]]
    cn_names = [v for v, _ in decls.enums["Content"]]
    items = []
    scenarios = [("3 blocks", ["B", "B", "B"]), ("2 blocks, new section, 2 blocks", ["B", "B", "S", "B", "B"]), ("4 blocks", ["B", "B", "B", "B"])]
    if run.tier == "quick":
        scenarios = scenarios[:2]
    for sname, shape in scenarios:
        sem = smt.RealSem(prefix="e")
        mods = dict(models.STD_MODELS)
        mods.update(models.MORE_MODELS)
        mods.update(models.VEC_MODELS)
        mods.update(models.RESULT_MODELS)
        it = mir.Interp(dump, decls, sem, models=mods)
        dm = sem.sym_int("define_mode", "isize", 0, len(dm_names) - 1)
        c0 = sem.sym_int("c0", "u32", 1, 1000000)
        kinds = []
        events = []

        def enum_const(ty, names, idx_expr, variants):
            return Enum(ty, SV("isize", idx_expr), variants, names)
        for i, e in enumerate(shape):
            if e == "B":
                k = sem.sym_int("kind%d" % i, "isize", 0, len(bk_names) - 1)
                kinds.append(k)
                bk = lambda: Enum("BlockKind", SV("isize", k), {n: Agg("BlockKind::" + n, {}) for n in bk_names}, bk_names)
                events.append(Enum("Event", SV("isize", str(ev_names.index("Start"))), {"Start": Agg("Event::Start", {"0": bk()})}, ev_names))
                events.append(Enum("Event", SV("isize", str(ev_names.index("End"))), {"End": Agg("Event::End", {"0": bk()})}, ev_names))
            else:
                kinds.append(None)
                events.append(Enum("Event", SV("isize", str(ev_names.index("Section"))),
                                   {"Section": Agg("Event::Section", {"0": it._mk_enum("Option", "None", [])})}, ev_names))
        section0 = Agg("Section", {str(secf.index("name")): it._mk_enum("Option", "None", []), str(secf.index("content")): VecVal([])})
        recipe = OpenAgg("Recipe", {str(recf.index("sections")): VecVal([])})
        col = OpenAgg("RecipeCollector", {
            str(rc.index("content")): recipe,
            str(rc.index("current_section")): section0,
            str(rc.index("define_mode")): Enum("DefineMode", SV("isize", dm), {n: Agg("DefineMode::" + n, {}) for n in dm_names}, dm_names),
            str(rc.index("step_counter")): SV("u32", c0),
            str(rc.index("old_style_metadata_used")): VecVal([]),
        })
        eq_discr = lambda it_, a, c_: SV("bool", sem.simplify("(= %s %s)" % (it_.deref(a[0], it_.cur_env).discr.expr, it_.deref(a[1], it_.cur_env).discr.expr)))
        ne_discr = lambda it_, a, c_: SV("bool", sem.simplify("(not (= %s %s))" % (it_.deref(a[0], it_.cur_env).discr.expr, it_.deref(a[1], it_.cur_env).discr.expr)))
        it.models.update({
            r"^<impl Iterator<Item = Event<'i>> as Iterator>::by_ref$": models.m_identity,
            r"^<impl Iterator<Item = Event<'i>> as Iterator>::next$": models.m_iter_next,
            r"^<DefineMode as PartialEq>::eq$": eq_discr, r"^<DefineMode as PartialEq>::ne$": ne_discr,
            r"^<BlockKind as PartialEq>::eq$": eq_discr,
            r"^std::string::String::new$": lambda it_, a, c_: Opaque("empty string"),
            r"^Vec::<.*>::new$": lambda it_, a, c_: VecVal([]),
            r"^Arguments::<'_>::from_str$": models.m_opaque,
            r"^PassResult::<.*>::new$": models.m_opaque,
            r"^std::option::Option::<std::string::String>::is_none$": lambda it_, a, c_: SV("bool", "(= %s 0)" % it_.deref(a[0], it_.cur_env).discr.expr),
        })
        outs = it.run(f_pe, [col, models.IterVal(events)])
        D = list(sem.decls)
        for o in outs:
            p = ">".join(o.trace[-2:])
            if o.kind == "panic":
                items.append((D, "%s: the event loop never panics on balanced Start/End pairs (%s)" % (sname, str(o.msg)[:50]), mcheck.pc_assert(o.pc), "unsat"))
                continue
            if o.kind != "return":
                continue
            fin = o.env["_1"]
            cur = fin.fields[str(rc.index("current_section"))]
            done = fin.fields[str(rc.index("content"))].fields[str(recf.index("sections"))].items
            counter = fin.fields[str(rc.index("step_counter"))].expr
            cur_items = cur.fields[str(secf.index("content"))].items if isinstance(cur, Agg) and isinstance(cur.fields.get(str(secf.index("content"))), VecVal) else []
            # the return path moves the last section into `sections`; collect all sections in order
            all_sections = [sct.fields[str(secf.index("content"))].items for sct in done if isinstance(sct, Agg)]
            if done and done[-1] is cur:
                cur_items = []        # the current section was moved into `sections` on the way out

            def numbering(contents, first):
                """SMT: steps inside `contents` are numbered first, first+1, ... in order; returns (condition, number of steps expr)"""
                conds, n = [], "0"
                for cnt in contents:
                    if isinstance(cnt, Enum) and "Step" in cnt.variants:
                        num = cnt.variants["Step"].fields["0"].fields[str(stepf.index("number"))].expr
                        conds.append("(= %s (+ %s %s))" % (num, first, n))
                        n = "(+ %s 1)" % n
                return conds, n
            has_section_event = "S" in shape
            conds = []
            if not has_section_event:
                # everything lands in one section: numbered from c0; the counter ends at c0 + #steps (the invariant is kept)
                cs, n = numbering([x for sec in all_sections for x in sec] + cur_items, "c0")
                conds += cs + ["(= %s (+ c0 %s))" % (counter, n)]
            else:
                # blocks before the Section event continue the numbering from c0, blocks after it start again at 1
                secs = all_sections + ([cur_items] if cur_items else [])
                # which pushed section is which depends on what was pushed; the last section holds the post-reset blocks
                if secs:
                    cs_last, n_last = numbering(secs[-1], "1")
                    alt_a = cs_last + ["(= %s (+ 1 %s))" % (counter, n_last)]
                    if len(secs) >= 2:
                        cs_first, _ = numbering(secs[0], "c0")
                        alt_a += cs_first
                    # or: nothing was pushed after the reset, the only section is the pre-reset one
                    cs_only, _ = numbering(secs[0], "c0")
                    alt_b = cs_only + ["(= %s 1)" % counter] if len(secs) == 1 else ["false"]
                    conds.append("(or (and %s) (and %s))" % (" ".join(alt_a) or "true", " ".join(alt_b) or "true"))
                else:
                    conds.append("(= %s 1)" % counter)
            items.append((D, "%s path[%s]: steps are numbered consecutively per section and the counter stays 1 + steps of the current section" % (sname, p),
                          mcheck.pc_assert(o.pc) + ["(not (and %s))" % " ".join(conds) if conds else "false"], "unsat"))
    run.assumptions += ["event sequences: balanced Start/End pairs of symbolic kind (step | text), optionally one unnamed Section event; "
                        "constant but symbolic define mode; blocks are empty (their content is handled by other functions)"]
    run.bounds.append("M: parse_events' loop unrolled by the event count (6 resp. 9 events)")
    def on_sat(model, ob, item):
        for profile in nat.bins:
            bad = judge_numbering(nat, profile)
            run.traces_validated += len(NUMBERING_CASES)
            if bad:
                run.violation("kernel=analysis::RecipeCollector::parse_events obligation=step-numbering", "; ".join(bad[:2]),
                              dict(engine="mir-smt", replay="step_numbers", profile=profile))
                ob["status"] = "violated"
                return
        run.inconclusive.append("C06 step numbering: candidate (define mode %s) does not reproduce through the public parser" % model.get("define_mode"))

    by = {}
    for (D, name, asserts, expect) in items:
        by.setdefault(id(D), (D, []))[1].append((name, asserts, expect))
    k = 0
    for _, (D, lst) in by.items():
        k += 1
        b = mcheck.Batch(ms, "c06-%d" % k, D, timeout_s=60)
        for name, asserts, expect in lst:
            b.add(name, asserts, expect, ["define_mode", "c0"], on_sat)
        b.run()
    if items:
        run.samples.append({"engine": "mir-smt", "obligation": items[-1][1]})
    ms.close()


def check(run):
    scr = scratch.Scratch()
    scr.copy_repo()
    missing = scr.inject()
    if missing:
        run.inconclusive.append("source files missing for injection: %s" % missing)
    run.assumptions += [
        "collector state built directly (fields of RecipeCollector), respecting its invariant step_counter = 1 + number of steps pushed",
        "val >= 0 (the parser never produces a negative value; the function asserts it)",
    ]
    run.not_covered += [
        "step / text items and in_step (the item index is the index the handlers return), non-empty sections, mode switches through metadata events, "
        "more than two earlier components of a kind: need the parser in front of the event loop or larger states",
    ]
    only = os.environ.get("VERIF_ONLY", "")
    nat = None
    if only in ("", "M", "A"):
        import native
        nat = native.Native(scr)
        nat.build(log=os.path.join(run.logdir, "native-build.log"))
    if only in ("", "M"):
        try:
            m_part(run, scr, nat)
        except mir.Unsupported as e:
            run.inconclusive.append("encoder: %s" % e)
        bad = judge_numbering(nat)
        run.traces_validated += len(NUMBERING_CASES)
        if bad and not run.violations:
            run.violation("validation-vector step-numbering", "; ".join(bad[:2]), dict(engine="validation-vector", replay="step_numbers"))
    if only in ("", "A"):
        analysis.run_for(run, scr, nat, "C06")
    if only in ("", "K"):
        kani_group.run_group(run, scr, registry.select("C06", run.tier))


def replay(run, path):
    import json, native
    obj = json.load(open(path))
    scr = scratch.Scratch()
    scr.copy_repo()
    scr.inject()
    if obj.get("replay") == "structure":
        nat = native.Native(scr)
        nat.build()
        return analysis.replay_structure(nat, "C06", path)
    if obj.get("replay") == "step_numbers":
        nat = native.Native(scr)
        nat.build()
        bad = judge_numbering(nat)
        print("replay:", bad)
        if bad:
            print("VIOLATION property=C06 replay=%s" % path)
        return 1 if bad else 0
    st = kani_group.replay(run, scr, path)
    print("replay: %s" % st)
    if st == "failed":
        print("VIOLATION property=C06 replay=%s" % path)
        return 1
    return 0 if st == "passed" else 2
