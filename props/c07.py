"""C07 (sliver) - diagnostics are sound and complete for the scaling-lock construct.

Only one analysis-stage decision is within reach of the MIR->SMT engine so far: RecipeCollector::value, which
decides whether a quantity's `=` scaling lock deserves the "Unnecessary scaling lock modifier" warning.
A well-formed recipe must produce no warning; a lock on a cookware/timer quantity or on a text value must.
"""
import os, json, re
import scratch, native, mcheck, mir, smt, models
import c08
from mir import SV, Agg, Enum, Opaque, OpenAgg, VecVal


def m_part(run, scr, nat):
    c = c08.build(run, scr)
    run.functions[:] = ["analysis::RecipeCollector::value (MIR)"]
    sem, it, decls = c.sem, c.it, c.decls
    V = c08.sym_value(c, "x")
    lf = decls.structs["Located"]
    qv = decls.structs["QuantityValue"]
    lock = models.mk_option(it, SV("isize", sem.sym_int("lock", "isize", 0, 1)), Opaque("span"))
    located = Agg("Located", {str(lf.index("inner")): V, str(lf.index("span")): Opaque("span")})
    qval = Agg("QuantityValue", {str(qv.index("value")): located, str(qv.index("scaling_lock")): lock})
    sem.decls.append("(declare-const is_ingredient Bool)")
    is_text = "(= %s %d)" % (V.discr.expr, V.idx["Text"])
    items = []
    n_warn = 0
    for o in it.run(c.f_collect_value, [OpenAgg("RecipeCollector", {}), qval, SV("bool", "is_ingredient")]):
        p = ">".join(o.trace[-3:])
        if o.kind == "panic":
            items.append(("RecipeCollector::value never panics", mcheck.pc_assert(o.pc), "unsat"))
            continue
        if o.kind != "return":
            continue
        useless = "(and (= lock 1) (or (not is_ingredient) %s))" % is_text
        if "warn" in o.events:
            n_warn += 1
            items.append(("soundness: a scaling-lock warning is pushed only for a useless lock (cookware/timer or text value) path[%s]" % p,
                          mcheck.pc_assert(o.pc) + ["(not %s)" % useless], "unsat"))
            items.append(("twin: the warning path is reachable path[%s]" % p, mcheck.pc_assert(o.pc), "info"))
        else:
            items.append(("completeness: a useless scaling lock always gets its warning path[%s]" % p,
                          mcheck.pc_assert(o.pc) + [useless], "unsat"))
    if n_warn == 0:
        run.inconclusive.append("RecipeCollector::value: no path pushes a warning any more - encoder or code drifted")
    run.assumptions += ["diagnostic construction (SourceDiag::warning/add_hint, spans) is opaque; SourceReport::warn is the observable event"]
    run.bounds.append("M: loop-free CFG of RecipeCollector::value, all paths; value kind, lock presence and component kind symbolic")
    batch = mcheck.Batch(c.ms, "c07", list(sem.decls), timeout_s=60)

    def on_sat(name):
        def cb(model, ob, item):
            confirm(run, nat, name, ob)
        return cb
    for name, asserts, expect in items:
        batch.add(name, asserts, expect, ["lock", "is_ingredient", "x_tag"] if expect == "unsat" else (), on_sat(name))
    done = batch.run()
    if not any(d["expect"] == "info" and d.get("verdict") == "sat" for d in done):
        run.inconclusive.append("no warning-pushing path of RecipeCollector::value is reachable: the soundness obligation is vacuous")
    run.samples.append({"engine": "mir-smt", "obligation": items[0][0], "asserts": items[0][1][-2:]})
    try:
        error_branch_part(run, c.ms, nat)
    except mir.Unsupported as e:
        run.inconclusive.append("encoder (parse_events Error branch): %s" % e)
    try:
        fraction_part(run, scr, c.ms, nat)
    except mir.Unsupported as e:
        run.inconclusive.append("encoder (fraction kernels): %s" % e)
    try:
        range_part(run, scr, c.ms, nat)
    except mir.Unsupported as e:
        run.inconclusive.append("encoder (range_value): %s" % e)
    c.ms.close()


def error_branch_part(run, ms, nat):
    """parse-error short-circuit of RecipeCollector::parse_events: from a collector whose report already holds diagnostics of
    symbolic stage and severity, an `Event::Error` followed by further events ends the pass with NO output and a report made of
    exactly: the earlier PARSE-stage diagnostics, the error, and every later Error / Warning event, in order"""
    from mir import VecVal
    dump, decls = ms.dump, ms.decls
    f_pe = dump.find_impl_method("parse_events", r"_1: RecipeCollector<'_, '_>, _2: impl Iterator<Item = Event<'i>>")
    run.functions.append("analysis::RecipeCollector::parse_events (MIR; Error branch: SourceReport::error/push/retain, PassResult::new)")
    sem = smt.RealSem(prefix="pe")
    mods = dict(models.STD_MODELS)
    mods.update(models.MORE_MODELS)
    mods.update(models.VEC_MODELS)
    mods.update(models.RESULT_MODELS)
    it = mir.Interp(dump, decls, sem, models=mods)
    rc = decls.structs["RecipeCollector"]
    sr = decls.structs["SourceReport"]
    sd = decls.structs["SourceDiag"]
    ev_names = [v for v, _ in decls.enums["Event"]]
    bk_names = [v for v, _ in decls.enums["BlockKind"]]
    dm_names = [v for v, _ in decls.enums["DefineMode"]]
    st_names = [v for v, _ in decls.enums["Stage"]]
    sv_names = [v for v, _ in decls.enums["Severity"]]

    def fieldless(ty, names, expr):
        return Enum(ty, SV("isize", expr), {n: Agg(ty + "::" + n, {}) for n in names}, names)

    def diag(name, stage=None, severity=None):
        st = sem.sym_int(name + "_stage", "isize", 0, 1) if stage is None else str(st_names.index(stage))
        sv = sem.sym_int(name + "_sev", "isize", 0, 1) if severity is None else str(sv_names.index(severity))
        d = OpenAgg("SourceDiag", {str(sd.index("stage")): fieldless("Stage", st_names, st), str(sd.index("severity")): fieldless("Severity", sv_names, sv)})
        d.stage_expr = st
        return d
    old = [diag("old0"), diag("old1")]
    # what the parser emits: parse-stage diagnostics; an Error event carries an error, a Warning event a warning
    e1 = diag("e1", "Parse", "Error")
    w1 = diag("w1", "Parse", "Warning")
    e2 = diag("e2", "Parse", "Error")
    k = sem.sym_int("kind", "isize", 0, len(bk_names) - 1)
    mk_ev = lambda var, payload: Enum("Event", SV("isize", str(ev_names.index(var))), {var: Agg("Event::" + var, {"0": payload})}, ev_names)
    events = [mk_ev("Error", e1), mk_ev("Start", fieldless("BlockKind", bk_names, k)), mk_ev("Warning", w1), mk_ev("Error", e2),
              mk_ev("End", fieldless("BlockKind", bk_names, k))]
    report = Agg("SourceReport", {str(sr.index("buf")): VecVal(list(old)), str(sr.index("severity")): it._mk_enum("Option", "None", [])})
    dm = sem.sym_int("define_mode", "isize", 0, len(dm_names) - 1)
    col = OpenAgg("RecipeCollector", {
        str(rc.index("ctx")): report,
        str(rc.index("define_mode")): fieldless("DefineMode", dm_names, dm),
        str(rc.index("step_counter")): SV("u32", sem.sym_int("c0", "u32", 1, 1000)),
    })
    results = []

    def m_pass_result(it_, a, callee):
        it_.emit(("result", a[0], a[1]))
        return Opaque("PassResult", a)

    def m_retain(it_, a, callee):
        vec = it_.deref(a[0], it_.cur_env)
        clo = a[1]
        out = []
        for pc, env, acc in it_.run_closure_seq(clo, list(vec.items)):
            if any(kd == "panic" for kd, _ in acc):
                out.append((pc, None, "panic", "closure panicked"))
                continue
            # each closure result is a boolean term; fork on every one of them
            states = [([], [])]
            for item, (_, r) in zip(vec.items, acc):
                nxt = []
                for cpc, kept in states:
                    nxt.append((cpc + [r.expr], kept + [item]))
                    nxt.append((cpc + ["(not %s)" % r.expr], kept))
                states = nxt
            for cpc, kept in states:
                env2 = mir.fork_env(env)
                it_.write_ref(a[0], VecVal(kept), env2)
                out.append((pc + cpc, Opaque("unit"), "return", None, {"env": env2}))
        return out
    eq_discr = lambda it_, a, c_: SV("bool", sem.simplify("(= %s %s)" % (it_.deref(a[0], it_.cur_env).discr.expr, it_.deref(a[1], it_.cur_env).discr.expr)))
    ne_discr = lambda it_, a, c_: SV("bool", sem.simplify("(not (= %s %s))" % (it_.deref(a[0], it_.cur_env).discr.expr, it_.deref(a[1], it_.cur_env).discr.expr)))
    it.models.update({
        r"^<impl Iterator<Item = Event<'i>> as Iterator>::by_ref$": models.m_identity,
        r"^<impl Iterator<Item = Event<'i>> as Iterator>::next$": models.m_iter_next,
        r"^<&mut impl Iterator<Item = Event<'i>> as Iterator>::for_each::<": models.m_for_each,
        r"^<(DefineMode|BlockKind|Stage|error::Stage|Severity|error::Severity) as PartialEq>::eq$": eq_discr,
        r"^<(DefineMode|BlockKind|Stage|error::Stage|Severity|error::Severity) as PartialEq>::ne$": ne_discr,
        r"^Vec::<SourceDiag>::retain::<": m_retain,
        r"^Vec::<error::SourceDiag>::retain::<": m_retain,
        r"^PassResult::<.*>::new$": m_pass_result,
        r"^std::string::String::new$": lambda it_, a, c_: Opaque("empty string"),
        r"^Vec::<.*>::new$": lambda it_, a, c_: VecVal([]),
        r"^Arguments::<'_>::from_str$": models.m_opaque,
    })
    outs = it.run(f_pe, [col, models.IterVal(events)])
    items = []
    n = 0
    parse_idx = st_names.index("Parse")
    for o in outs:
        p = ">".join(o.trace[-2:])
        pcs = mcheck.pc_assert(o.pc)
        if o.kind == "panic":
            items.append(("parse-error short-circuit never panics (%s)" % str(o.msg)[:40], pcs, "unsat"))
            continue
        if o.kind != "return":
            continue
        res = [e for e in o.events if isinstance(e, tuple) and e[0] == "result"]
        if len(res) != 1:
            items.append(("parse-error short-circuit path[%s]: the pass ends in exactly one PassResult" % p, pcs, "unsat"))
            continue
        n += 1
        _, output, rep = res[0]
        no_output = "true" if (isinstance(output, Enum) and output.discr.expr == "0") else "false"
        buf = rep.fields[str(sr.index("buf"))].items if isinstance(rep, Agg) else None
        if buf is None:
            want = "false"
        else:
            # expected content, decided per earlier diagnostic by its stage
            alts = []
            for keep0 in (True, False):
                for keep1 in (True, False):
                    exp = ([old[0]] if keep0 else []) + ([old[1]] if keep1 else []) + [e1, w1, e2]
                    same_list = len(buf) == len(exp) and all(x is y for x, y in zip(buf, exp))
                    cond = "(and (%s (= %s %d)) (%s (= %s %d)))" % ("=" if keep0 else "distinct", "true", 1, "=", "true", 1)
                    c0 = "(= %s %d)" % (old[0].stage_expr, parse_idx)
                    c1 = "(= %s %d)" % (old[1].stage_expr, parse_idx)
                    alts.append("(and %s %s %s)" % (c0 if keep0 else "(not %s)" % c0, c1 if keep1 else "(not %s)" % c1, "true" if same_list else "false"))
            want = "(or %s)" % " ".join(alts)
        items.append(("parse-error short-circuit path[%s]: no output, and the report holds exactly the earlier parse-stage diagnostics, the error and "
                      "every later parser error/warning, in order - every analysis-stage diagnostic is dropped" % p,
                      pcs + ["(not (and %s %s))" % (no_output, want)], "unsat"))
        items.append(("reachable: parse-error short-circuit path[%s]" % p, pcs, "info"))
    if n == 0:
        run.inconclusive.append("parse_events: the Error branch produced no result path")
    run.bounds.append("M: parse_events over [Error, Start, Warning, Error, End] from a report with two earlier diagnostics of symbolic stage and severity")
    batch = mcheck.Batch(ms, "c07-err", list(sem.decls), timeout_s=60)

    def on_sat(name):
        def cb(model, ob, item):
            bad = judge_short_circuit(nat)
            run.traces_validated += len(SHORT_CASES)
            if bad:
                run.violation("kernel=analysis::RecipeCollector::parse_events parse-error-short-circuit", "; ".join(bad[:2])[:600],
                              dict(engine="mir-smt", replay="short_circuit"))
                ob["status"] = "violated"
            else:
                run.inconclusive.append("C07 %s: candidate does not reproduce through the public parser" % name[:80])
        return cb
    for name, asserts, expect in items:
        batch.add(name, asserts, expect, (), on_sat(name))
    batch.run()


def fraction_part(run, scr, ms, nat):
    """parser kernels `frac` / `mixed_num` (quantity values `a/b`, `i a/b`): a zero denominator is a parse error, never a number"""
    import analysis
    dump, decls = analysis.load_mir_dbg(run, scr, ms)
    run.functions.append("parser::quantity::{int, frac, mixed_num} (MIR with debug assertions; token text -> u32 parsing abstract)")
    tkf = decls.structs.lookup("Token", "parser::token_stream")
    knames = [v for v, _ in decls.enums["TokenKind"]]
    nn = [v for v, _ in decls.enums["Number"]]
    fr = dict(decls.enums["Number"])["Fraction"]
    for fname, ntok in (("frac", 2), ("mixed_num", 3)):
        w = analysis.World(dump, decls, "f%d" % ntok, max_paths=20000)
        it, sem = w.it, w.sem
        it.abstract_fns += [r"^BlockParser::<'_, '_>::token_str$"]
        toks = []
        for j in range(ntok):
            t = Agg("Token", {str(tkf.index("kind")): Enum("TokenKind", SV("isize", str(knames.index("Int"))), {n: Agg("TokenKind::" + n, {}) for n in knames}, knames),
                              str(tkf.index("span")): Opaque("span of token %d" % j)})
            t.ok = sem.sym_int("tok%d_parses" % j, "isize", 0, 1)
            t.val = sem.sym_int("tok%d_value" % j, "u32", 0, 2 ** 32 - 1)
            toks.append(t)

        def m_parse_u32(it_, a, c_, toks=toks):
            src = a[0]
            hit = [t for t in toks if isinstance(src, Opaque) and src.args and src.args[-1] is t]
            if not hit:
                raise mir.Unsupported("parse::<u32> of %r" % (src,))
            t = hit[0]
            return Enum("Result", SV("isize", "(- 1 %s)" % t.ok), {"Ok": Agg("Result::Ok", {"0": SV("u32", t.val)}), "Err": Agg("Result::Err", {"0": Opaque("ParseIntError")})}, ["Ok", "Err"])

        def m_map_err(it_, a, c_):
            r = a[0]
            res = []
            for var, payload in (("Ok", None), ("Err", None)):
                pass
            d = r.discr.expr
            out = [(["(= %s 0)" % d], it_._mk_enum("Result", "Ok", [r.variants["Ok"].fields["0"]]), "return", None)]
            for pc2, env2, acc in it_.run_closure_seq(a[1], [r.variants["Err"].fields["0"]]):
                kind, val = acc[0]
                out.append((["(= %s 1)" % d] + pc2, it_._mk_enum("Result", "Err", [val]), "return", None, {"env": env2}) if kind == "return"
                           else (["(= %s 1)" % d] + pc2, None, "panic", val))
            return out
        mine = {r"^core::str::<impl str>::parse::<u32>$": m_parse_u32, r"^Result::<u32, ParseIntError>::map_err::<": m_map_err}
        mine.update({k_: v_ for k_, v_ in it.models.items() if k_ not in mine})
        it.models = mine
        f = dump.find(r"^%s$" % fname)
        outs = it.run(f, toks + [Opaque("the block parser")])
        items = []
        all_ok = "(and %s)" % " ".join("(= %s 1)" % t.ok for t in toks)
        den = toks[-1]
        n_ok = n_zero = 0
        for o in outs:
            p = ">".join(o.trace[-2:])
            pcs = mcheck.pc_assert(o.pc)
            if o.kind == "panic":
                items.append(("%s never panics on integer tokens: %s" % (fname, str(o.msg)[:40]), pcs, "unsat"))
                continue
            if o.kind != "return":
                continue
            if "Ok" in o.value.variants:
                n_ok += 1
                num = o.value.variants["Ok"].fields["0"]
                fx = num.variants.get("Fraction") if isinstance(num, Enum) else None
                good = "false"
                if fx is not None:
                    g = lambda n: fx.fields[str(fr.index(n))].expr
                    whole = "(= %s %s)" % (g("whole"), toks[0].val if ntok == 3 else "0")
                    good = "(and %s (not (= %s 0)) %s (= %s %s) (= %s %s) (= %s 0.0))" % (all_ok, den.val, whole, g("num"), toks[-2].val, g("den"), den.val, g("err"))
                items.append(("%s path[%s]: a number comes back only when every token parses and the denominator is not zero, and it is the exact "
                              "fraction written" % (fname, p), pcs + ["(not %s)" % good], "unsat"))
            else:
                err = o.value.variants["Err"].fields["0"]
                while isinstance(err, Opaque) and err.what == "converted error" and err.args:
                    err = err.args[0]         # `?` converts through `From<SourceDiag> for SourceDiag`, the identity
                info = w.diag_info(err) if isinstance(err, Agg) else dict(severity=None, stage=None, message="")
                # a refusal although every token parses is the zero-denominator error: a parse-stage Error, raised only for den = 0
                well_formed = info["severity"] == "Error" and info["stage"] == "Parse"
                if well_formed:
                    n_zero += 1
                items.append(("%s path[%s]: a refusal means a token did not parse as an integer, or - as a parse-stage error - that the "
                              "denominator is zero" % (fname, p),
                              pcs + [all_ok, "(not (and (= %s 0) %s))" % (den.val, "true" if well_formed else "false")], "unsat"))
        if n_ok == 0 or n_zero == 0:
            run.inconclusive.append("%s: expected a success path and a division-by-zero path, found %d / %d" % (fname, n_ok, n_zero))

        def on_sat(name):
            def cb(model, ob, item):
                bad = judge_fractions(nat)
                if bad:
                    run.violation("kernel=parser::quantity fraction", "; ".join(bad[:2])[:600], dict(engine="mir-smt", replay="fractions"))
                    ob["status"] = "violated"
                else:
                    run.inconclusive.append("C07 %s: candidate does not reproduce through the public parser" % name[:80])
            return cb
        b = mcheck.Batch(ms, "c07-%s" % fname, list(sem.decls), timeout_s=60)
        for name, asserts, expect in items:
            b.add(name, asserts, expect, (), on_sat(name))
        b.run()


def range_part(run, scr, ms, nat):
    """parser kernel `range_value` (`a-b`): an error in either bound is THE result (never swallowed into "not a range"), and a
    range comes back only from two numbers"""
    import analysis
    dump, decls = analysis.load_mir_dbg(run, scr, ms)
    run.functions.append("parser::quantity::range_value (MIR with debug assertions; numeric_value and the extension test abstract)")
    tkf = decls.structs.lookup("Token", "parser::token_stream")
    knames = [v for v, _ in decls.enums["TokenKind"]]
    vnames = [v for v, _ in decls.enums.lookup("Value", "quantity")]
    w = analysis.World(dump, decls, "rv", max_paths=20000)
    it, sem = w.it, w.sem
    it.abstract_fns += [r"^numeric_value$", r"^BlockParser::<'_, '_>::extension$"]
    allowed = [knames.index(x) for x in ("Int", "Minus", "Whitespace", "Slash")]
    toks = []
    for j in range(3):
        kd = sem.sym_int("rk%d" % j, "isize", 0, len(knames) - 1)
        sem.decls.append("(assert (or %s))" % " ".join("(= rk%d %d)" % (j, a) for a in allowed))
        toks.append(Agg("Token", {str(tkf.index("kind")): Enum("TokenKind", SV("isize", kd), {n: Agg("TokenKind::" + n, {}) for n in knames}, knames),
                                  str(tkf.index("span")): Opaque("span of token %d" % j)}))
    f = dump.find(r"^range_value$")
    outs = it.run(f, [VecVal(toks), Opaque("the block parser")])
    items = []
    n_ok = n_err = 0
    has_dash = "(or %s)" % " ".join("(= rk%d %d)" % (j, knames.index("Minus")) for j in range(3))
    for o in outs:
        p = ">".join(o.trace[-2:])
        pcs = mcheck.pc_assert(o.pc)
        if o.kind == "panic":
            items.append(("range_value never panics (`unreachable!` for a non-number from numeric_value is that function's contract): %s" % str(o.msg)[:40],
                          pcs + [nv_contract(it, vnames)], "unsat"))
            continue
        if o.kind != "return":
            continue
        # the abstract results of the numeric_value calls made on this path, in call order, with their lazily created shape
        calls = [r0 for c0, a0, r0 in it.__dict__.get("_uf_calls", []) if c0 == "numeric_value"]
        shapes = []
        for r0 in calls:
            e_opt = it.__dict__.get("_lazy_enums", {}).get(id(r0), (None, None))[1]
            e_res = None
            if e_opt is not None:
                inner = e_opt.variants["Some"].fields["0"]
                e_res = it.__dict__.get("_lazy_enums", {}).get(id(inner), (None, None))[1]
            shapes.append((e_opt, e_res))
        res = o.value
        # which of the bound results this path looked at is decided by its path condition; the claims quantify over all of them
        used = [(eo, er) for eo, er in shapes if eo is not None and any(eo.discr.expr in c for c in o.pc)]
        is_none = isinstance(res, Enum) and res.discr.expr == "0"
        if is_none:
            ok = c08.conj([]) if False else "true"
            # "not a range": no extension, no dash, or a bound that is not numeric at all - never a bound that is an ERROR
            bad = ["(and (= %s 1) (= %s 1))" % (eo.discr.expr, er.discr.expr) for eo, er in used if er is not None]
            items.append(("range_value path[%s]: 'not a range' is never the answer when a bound is a numeric ERROR (e.g. a zero denominator)" % p,
                          pcs + ["(or false %s)" % " ".join(bad)], "unsat"))
            continue
        inner = res.variants["Some"].fields["0"] if isinstance(res, Enum) and "Some" in res.variants else None
        if isinstance(inner, Enum) and inner.ty == "Result" and re.match(r"^\d+$", inner.discr.expr):
            if inner.discr.expr == "1":
                n_err += 1
                payload = inner.variants["Err"].fields["0"]
                from_bound = any(er is not None and er.variants["Err"].fields["0"] is payload for eo, er in used)
                items.append(("range_value path[%s]: an error result is the error of one of its bounds" % p, pcs + ["true" if not from_bound else "false"], "unsat"))
            else:
                n_ok += 1
                v = inner.variants["Ok"].fields["0"]
                both = len(used) == 2 and all(er is not None for eo, er in used)
                cond = "false"
                if both and isinstance(v, Enum) and "Range" in v.variants:
                    cond = c08.conj(["(= %s 1)" % eo.discr.expr for eo, er in used] + ["(= %s 0)" % er.discr.expr for eo, er in used] + [has_dash])
                items.append(("range_value path[%s]: a range comes back only from a dash with a numeric value on either side" % p, pcs + ["(not %s)" % cond], "unsat"))
        else:
            items.append(("range_value path[%s]: the result is None, an error or a value" % p, pcs, "unsat"))
    if n_ok == 0 or n_err == 0:
        run.inconclusive.append("range_value: expected range and error paths, found %d / %d" % (n_ok, n_err))

    def on_sat(name):
        def cb(model, ob, item):
            bad = judge_fractions(nat)
            if bad:
                run.violation("kernel=parser::quantity range", "; ".join(bad[:2])[:600], dict(engine="mir-smt", replay="fractions"))
                ob["status"] = "violated"
            else:
                run.inconclusive.append("C07 %s: candidate does not reproduce through the public parser" % name[:80])
        return cb
    b = mcheck.Batch(ms, "c07-range", list(sem.decls), timeout_s=60)
    for name, asserts, expect in items:
        b.add(name, asserts, expect, (), on_sat(name))
    b.run()


def nv_contract(it, vnames):
    """numeric_value's contract as range_value uses it: an Ok result is a Number (decided with the fraction kernels / float parsing)"""
    conds = []
    for c0, a0, r0 in it.__dict__.get("_uf_calls", []):
        if c0 != "numeric_value":
            continue
        e_opt = it.__dict__.get("_lazy_enums", {}).get(id(r0), (None, None))[1]
        if e_opt is None:
            continue
        e_res = it.__dict__.get("_lazy_enums", {}).get(id(e_opt.variants["Some"].fields["0"]), (None, None))[1]
        if e_res is None:
            continue
        e_val = it.__dict__.get("_lazy_enums", {}).get(id(e_res.variants["Ok"].fields["0"]), (None, None))[1]
        if e_val is not None:
            conds.append("(= %s %d)" % (e_val.discr.expr, vnames.index("Number")))
    return c08.conj(conds)


FRACTION_CASES = [
    # (text, a "Division by zero" error expected?)
    ("@flour{1/2%cup}\\n", False), ("@flour{1 1/2%cup}\\n", False), ("@flour{1/0%cup}\\n", True), ("@flour{1 1/0%cup}\\n", True),
    ("#bowl{2 3/0}\\n", True), ("~{1 1/0%min}\\n", True), ("@x{0 1/2}\\n", False),
    ("@x{1-1/0%cup}\\n", True), ("@x{1/0-2%cup}\\n", True), ("@x{1/2-3/4%cup}\\n", False),
]


def judge_fractions(nat, profile="debug"):
    bad = []
    for text, want in FRACTION_CASES:
        r = nat.call("parse_report", "extended", text, profile=profile)
        if "error" in r or r.get("panic"):
            bad.append("%r: parse failed %s" % (text, r))
            continue
        got = bool(r.get("errors"))       # whatever its wording: these quantities have no other defect
        if got != want or (want and r.get("has_output")):
            bad.append("%r: zero-denominator error %s (output: %s), expected %s" % (text, "reported" if got else "not reported", r.get("has_output"), "one and no output" if want else "none"))
    return bad


SHORT_CASES = [
    # an analysis-stage warning / error before a parse error: only parse-stage diagnostics may remain, and there is no output
    "#pot{=1}\\n\\n@{}\\n",
    ">> [flavour]: sweet\\n@salt{=some}\\n\\n~{5}\\n",
    "@&ghost{}\\n\\n@{}\\n",
]


def judge_short_circuit(nat, profile="debug"):
    bad = []
    for text in SHORT_CASES:
        r = nat.call("parse_report", "extended", text, profile=profile)
        if "error" in r or r.get("panic"):
            bad.append("%r: parse failed %s" % (text, r))
            continue
        if r.get("has_output") is not False:
            bad.append("%r: a parse error must suppress the output" % text)
        stray = [d for d in r.get("diags", []) if d.get("stage") != "Parse"]
        if stray:
            bad.append("%r: analysis-stage diagnostics survive next to a parse error: %s" % (text, [d.get("message") for d in stray]))
        if not any(d.get("severity") == "Error" for d in r.get("diags", [])):
            bad.append("%r: expected a parse error" % text)
    return bad


CASES = [
    # (text, expected number of scaling-lock warnings)
    ("@salt{=1%tsp}\\n", 0),
    ("@salt{=1-2%tsp}\\n", 0),
    ("@salt{=1}\\n", 0),
    ("@salt{1%tsp}\\n", 0),
    ("@salt{=some}\\n", 1),
    ("#pan{=1}\\n", 1),
    ("~{=5%min}\\n", 1),
]


def judge(nat, profile="debug"):
    bad = []
    for text, want in CASES:
        r = nat.call("parse_report", "extended", text, profile=profile)
        if "error" in r or r.get("panic"):
            bad.append("%r: parse failed %s" % (text, r))
            continue
        got = len(r["warnings"])          # whatever its wording: these recipes have no other reason to warn
        if (got == 0) != (want == 0):
            bad.append("%r: %d warning(s), expected %s (warnings: %s)" % (text, got, "none" if want == 0 else "the useless-scaling-lock warning", r["warnings"]))
    return bad


def confirm(run, nat, name, ob):
    for profile in nat.bins:
        bad = judge(nat, profile)
        run.traces_validated += len(CASES)
        if bad:
            kind = "soundness" if "soundness" in name else "completeness"
            run.violation("kernel=analysis::RecipeCollector::value diagnostic=scaling-lock-warning %s" % kind,
                          "; ".join(bad[:3]), dict(engine="mir-smt", replay="parse_report", profile=profile))
            ob["status"] = "violated"
            return
    run.inconclusive.append("C07 %s: candidate does not reproduce through the public parser" % name)


def check(run):
    scr = scratch.Scratch()
    scr.copy_repo()
    scr.inject()
    nat = native.Native(scr)
    nat.build(log=os.path.join(run.logdir, "native-build.log"))
    try:
        m_part(run, scr, nat)
    except mir.Unsupported as e:
        run.inconclusive.append("encoder: %s" % e)
    # validation of the encoding's verdict against the real parser on the concrete cases (both must agree)
    bad = judge(nat)
    run.traces_validated += len(CASES)
    if bad and not run.violations:
        run.violation("validation-vector scaling-lock cases", "; ".join(bad[:3]), dict(engine="validation-vector", replay="parse_report"))
    if os.environ.get("VERIF_ONLY", "") in ("", "A"):
        # diagnostics built by the component handlers: stage, severity, when they are raised, where the primary label sits
        import analysis
        analysis.run_for(run, scr, nat, "C07")
    bad = judge_fractions(nat)
    run.traces_validated += len(FRACTION_CASES)
    if bad and not run.violations:
        run.violation("validation-vector fractions", "; ".join(bad[:2])[:600], dict(engine="validation-vector", replay="fractions"))
    bad = judge_short_circuit(nat)
    run.traces_validated += len(SHORT_CASES)
    if bad and not run.violations:
        run.violation("validation-vector parse-error short-circuit", "; ".join(bad[:2])[:600], dict(engine="validation-vector", replay="short_circuit"))
    run.not_covered += [
        "every other diagnostic of the catalogue (parser-stage checks, references, notes, timers, modes, front matter): "
        "they sit behind the lexer/parser or build their messages with format!, out of reach of both engines (DESIGN 6)",
        "placement of labels, severity of the other diagnostics, validity definition, parse-error short-circuit",
    ]


def replay(run, path):
    scr = scratch.Scratch()
    scr.copy_repo()
    scr.inject()
    nat = native.Native(scr)
    nat.build()
    import analysis
    bad = judge(nat) + judge_short_circuit(nat) + judge_fractions(nat) + analysis.judge_structure(nat)
    print("replay:", bad)
    if bad:
        print("VIOLATION property=C07 replay=%s" % path)
        return 1
    return 0
