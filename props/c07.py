"""C07 (sliver) - diagnostics are sound and complete for the scaling-lock construct.

Only one analysis-stage decision is within reach of the MIR->SMT engine so far: RecipeCollector::value, which
decides whether a quantity's `=` scaling lock deserves the "Unnecessary scaling lock modifier" warning.
A well-formed recipe must produce no warning; a lock on a cookware/timer quantity or on a text value must.
"""
import os, json
import scratch, native, mcheck, mir, smt, models
import c08
from mir import SV, Agg, Enum, Opaque, OpenAgg


def m_part(run, scr, nat):
    c = c08.build(run, scr)
    run.functions[:] = ["analysis::RecipeCollector::value (MIR)"]
    sem, it, decls = c.sem, c.it, c.decls
    V = c08.sym_value(c, "x")
    lf = decls.structs["Located"]
    qv = decls.structs["QuantityValue"]
    lock = models.mk_option(it, SV("isize", sem.sym_int("lock", "isize", 0, 1)), Opaque("span"))
    located = Agg("Located", {str(lf.index("inner")): V, str(lf.index("span")): Opaque("span")})
    qval = Agg("QuantityValue", {str(qv.index("value")): located, str(qv.index("scaling_lock")): lock})
    sem.decls.append("(declare-const is_ingredient Bool)")
    is_text = "(= %s %d)" % (V.discr.expr, V.idx["Text"])
    items = []
    n_warn = 0
    for o in it.run(c.f_collect_value, [OpenAgg("RecipeCollector", {}), qval, SV("bool", "is_ingredient")]):
        p = ">".join(o.trace[-3:])
        if o.kind == "panic":
            items.append(("RecipeCollector::value never panics", mcheck.pc_assert(o.pc), "unsat"))
            continue
        if o.kind != "return":
            continue
        useless = "(and (= lock 1) (or (not is_ingredient) %s))" % is_text
        if "warn" in o.events:
            n_warn += 1
            items.append(("soundness: a scaling-lock warning is pushed only for a useless lock (cookware/timer or text value) path[%s]" % p,
                          mcheck.pc_assert(o.pc) + ["(not %s)" % useless], "unsat"))
            items.append(("twin: the warning path is reachable path[%s]" % p, mcheck.pc_assert(o.pc), "info"))
        else:
            items.append(("completeness: a useless scaling lock always gets its warning path[%s]" % p,
                          mcheck.pc_assert(o.pc) + [useless], "unsat"))
    if n_warn == 0:
        run.inconclusive.append("RecipeCollector::value: no path pushes a warning any more - encoder or code drifted")
    run.assumptions += ["diagnostic construction (SourceDiag::warning/add_hint, spans) is opaque; SourceReport::warn is the observable event"]
    run.bounds.append("M: loop-free CFG of RecipeCollector::value, all paths; value kind, lock presence and component kind symbolic")
    batch = mcheck.Batch(c.ms, "c07", list(sem.decls), timeout_s=60)

    def on_sat(name):
        def cb(model, ob, item):
            confirm(run, nat, name, ob)
        return cb
    for name, asserts, expect in items:
        batch.add(name, asserts, expect, ["lock", "is_ingredient", "x_tag"] if expect == "unsat" else (), on_sat(name))
    done = batch.run()
    if not any(d["expect"] == "info" and d.get("verdict") == "sat" for d in done):
        run.inconclusive.append("no warning-pushing path of RecipeCollector::value is reachable: the soundness obligation is vacuous")
    run.samples.append({"engine": "mir-smt", "obligation": items[0][0], "asserts": items[0][1][-2:]})
    c.ms.close()


CASES = [
    # (text, expected number of scaling-lock warnings)
    ("@salt{=1%tsp}\\n", 0),
    ("@salt{=1-2%tsp}\\n", 0),
    ("@salt{=1}\\n", 0),
    ("@salt{1%tsp}\\n", 0),
    ("@salt{=some}\\n", 1),
    ("#pan{=1}\\n", 1),
    ("~{=5%min}\\n", 1),
]


def judge(nat, profile="debug"):
    bad = []
    for text, want in CASES:
        r = nat.call("parse_report", "extended", text, profile=profile)
        if "error" in r or r.get("panic"):
            bad.append("%r: parse failed %s" % (text, r))
            continue
        got = len([w for w in r["warnings"] if "scaling lock" in w.lower()])
        if got != want:
            bad.append("%r: %d scaling-lock warning(s), expected %d (warnings: %s)" % (text, got, want, r["warnings"]))
    return bad


def confirm(run, nat, name, ob):
    for profile in nat.bins:
        bad = judge(nat, profile)
        run.traces_validated += len(CASES)
        if bad:
            kind = "soundness" if "soundness" in name else "completeness"
            run.violation("kernel=analysis::RecipeCollector::value diagnostic=scaling-lock-warning %s" % kind,
                          "; ".join(bad[:3]), dict(engine="mir-smt", replay="parse_report", profile=profile))
            ob["status"] = "violated"
            return
    run.inconclusive.append("C07 %s: candidate does not reproduce through the public parser" % name)


def check(run):
    scr = scratch.Scratch()
    scr.copy_repo()
    scr.inject()
    nat = native.Native(scr)
    nat.build(log=os.path.join(run.logdir, "native-build.log"))
    try:
        m_part(run, scr, nat)
    except mir.Unsupported as e:
        run.inconclusive.append("encoder: %s" % e)
    # validation of the encoding's verdict against the real parser on the concrete cases (both must agree)
    bad = judge(nat)
    run.traces_validated += len(CASES)
    if bad and not run.violations:
        run.violation("validation-vector scaling-lock cases", "; ".join(bad[:3]), dict(engine="validation-vector", replay="parse_report"))
    run.not_covered += [
        "every other diagnostic of the catalogue (parser-stage checks, references, notes, timers, modes, front matter): "
        "they sit behind the lexer/parser or build their messages with format!, out of reach of both engines (DESIGN 6)",
        "placement of labels, severity of the other diagnostics, validity definition, parse-error short-circuit",
    ]


def replay(run, path):
    scr = scratch.Scratch()
    scr.copy_repo()
    scr.inject()
    nat = native.Native(scr)
    nat.build()
    bad = judge(nat)
    print("replay:", bad)
    if bad:
        print("VIOLATION property=C07 replay=%s" % path)
        return 1
    return 0
