"""C07 (sliver) - diagnostics are sound and complete for the scaling-lock construct.

Only one analysis-stage decision is within reach of the MIR->SMT engine so far: RecipeCollector::value, which
decides whether a quantity's `=` scaling lock deserves the "Unnecessary scaling lock modifier" warning.
A well-formed recipe must produce no warning; a lock on a cookware/timer quantity or on a text value must.
"""
import os, json
import scratch, native, mcheck, mir, smt, models
import c08
from mir import SV, Agg, Enum, Opaque, OpenAgg


def m_part(run, scr, nat):
    c = c08.build(run, scr)
    run.functions[:] = ["analysis::RecipeCollector::value (MIR)"]
    sem, it, decls = c.sem, c.it, c.decls
    V = c08.sym_value(c, "x")
    lf = decls.structs["Located"]
    qv = decls.structs["QuantityValue"]
    lock = models.mk_option(it, SV("isize", sem.sym_int("lock", "isize", 0, 1)), Opaque("span"))
    located = Agg("Located", {str(lf.index("inner")): V, str(lf.index("span")): Opaque("span")})
    qval = Agg("QuantityValue", {str(qv.index("value")): located, str(qv.index("scaling_lock")): lock})
    sem.decls.append("(declare-const is_ingredient Bool)")
    is_text = "(= %s %d)" % (V.discr.expr, V.idx["Text"])
    items = []
    n_warn = 0
    for o in it.run(c.f_collect_value, [OpenAgg("RecipeCollector", {}), qval, SV("bool", "is_ingredient")]):
        p = ">".join(o.trace[-3:])
        if o.kind == "panic":
            items.append(("RecipeCollector::value never panics", mcheck.pc_assert(o.pc), "unsat"))
            continue
        if o.kind != "return":
            continue
        useless = "(and (= lock 1) (or (not is_ingredient) %s))" % is_text
        if "warn" in o.events:
            n_warn += 1
            items.append(("soundness: a scaling-lock warning is pushed only for a useless lock (cookware/timer or text value) path[%s]" % p,
                          mcheck.pc_assert(o.pc) + ["(not %s)" % useless], "unsat"))
            items.append(("twin: the warning path is reachable path[%s]" % p, mcheck.pc_assert(o.pc), "info"))
        else:
            items.append(("completeness: a useless scaling lock always gets its warning path[%s]" % p,
                          mcheck.pc_assert(o.pc) + [useless], "unsat"))
    if n_warn == 0:
        run.inconclusive.append("RecipeCollector::value: no path pushes a warning any more - encoder or code drifted")
    run.assumptions += ["diagnostic construction (SourceDiag::warning/add_hint, spans) is opaque; SourceReport::warn is the observable event"]
    run.bounds.append("M: loop-free CFG of RecipeCollector::value, all paths; value kind, lock presence and component kind symbolic")
    batch = mcheck.Batch(c.ms, "c07", list(sem.decls), timeout_s=60)

    def on_sat(name):
        def cb(model, ob, item):
            confirm(run, nat, name, ob)
        return cb
    for name, asserts, expect in items:
        batch.add(name, asserts, expect, ["lock", "is_ingredient", "x_tag"] if expect == "unsat" else (), on_sat(name))
    done = batch.run()
    if not any(d["expect"] == "info" and d.get("verdict") == "sat" for d in done):
        run.inconclusive.append("no warning-pushing path of RecipeCollector::value is reachable: the soundness obligation is vacuous")
    run.samples.append({"engine": "mir-smt", "obligation": items[0][0], "asserts": items[0][1][-2:]})
    try:
        error_branch_part(run, c.ms, nat)
    except mir.Unsupported as e:
        run.inconclusive.append("encoder (parse_events Error branch): %s" % e)
    c.ms.close()


def error_branch_part(run, ms, nat):
    """parse-error short-circuit of RecipeCollector::parse_events: from a collector whose report already holds diagnostics of
    symbolic stage and severity, an `Event::Error` followed by further events ends the pass with NO output and a report made of
    exactly: the earlier PARSE-stage diagnostics, the error, and every later Error / Warning event, in order"""
    from mir import VecVal
    dump, decls = ms.dump, ms.decls
    f_pe = dump.find_impl_method("parse_events", r"_1: RecipeCollector<'_, '_>, _2: impl Iterator<Item = Event<'i>>")
    run.functions.append("analysis::RecipeCollector::parse_events (MIR; Error branch: SourceReport::error/push/retain, PassResult::new)")
    sem = smt.RealSem(prefix="pe")
    mods = dict(models.STD_MODELS)
    mods.update(models.MORE_MODELS)
    mods.update(models.VEC_MODELS)
    mods.update(models.RESULT_MODELS)
    it = mir.Interp(dump, decls, sem, models=mods)
    rc = decls.structs["RecipeCollector"]
    sr = decls.structs["SourceReport"]
    sd = decls.structs["SourceDiag"]
    ev_names = [v for v, _ in decls.enums["Event"]]
    bk_names = [v for v, _ in decls.enums["BlockKind"]]
    dm_names = [v for v, _ in decls.enums["DefineMode"]]
    st_names = [v for v, _ in decls.enums["Stage"]]
    sv_names = [v for v, _ in decls.enums["Severity"]]

    def fieldless(ty, names, expr):
        return Enum(ty, SV("isize", expr), {n: Agg(ty + "::" + n, {}) for n in names}, names)

    def diag(name, stage=None, severity=None):
        st = sem.sym_int(name + "_stage", "isize", 0, 1) if stage is None else str(st_names.index(stage))
        sv = sem.sym_int(name + "_sev", "isize", 0, 1) if severity is None else str(sv_names.index(severity))
        d = OpenAgg("SourceDiag", {str(sd.index("stage")): fieldless("Stage", st_names, st), str(sd.index("severity")): fieldless("Severity", sv_names, sv)})
        d.stage_expr = st
        return d
    old = [diag("old0"), diag("old1")]
    # what the parser emits: parse-stage diagnostics; an Error event carries an error, a Warning event a warning
    e1 = diag("e1", "Parse", "Error")
    w1 = diag("w1", "Parse", "Warning")
    e2 = diag("e2", "Parse", "Error")
    k = sem.sym_int("kind", "isize", 0, len(bk_names) - 1)
    mk_ev = lambda var, payload: Enum("Event", SV("isize", str(ev_names.index(var))), {var: Agg("Event::" + var, {"0": payload})}, ev_names)
    events = [mk_ev("Error", e1), mk_ev("Start", fieldless("BlockKind", bk_names, k)), mk_ev("Warning", w1), mk_ev("Error", e2),
              mk_ev("End", fieldless("BlockKind", bk_names, k))]
    report = Agg("SourceReport", {str(sr.index("buf")): VecVal(list(old)), str(sr.index("severity")): it._mk_enum("Option", "None", [])})
    dm = sem.sym_int("define_mode", "isize", 0, len(dm_names) - 1)
    col = OpenAgg("RecipeCollector", {
        str(rc.index("ctx")): report,
        str(rc.index("define_mode")): fieldless("DefineMode", dm_names, dm),
        str(rc.index("step_counter")): SV("u32", sem.sym_int("c0", "u32", 1, 1000)),
    })
    results = []

    def m_pass_result(it_, a, callee):
        it_.emit(("result", a[0], a[1]))
        return Opaque("PassResult", a)

    def m_retain(it_, a, callee):
        vec = it_.deref(a[0], it_.cur_env)
        clo = a[1]
        out = []
        for pc, env, acc in it_.run_closure_seq(clo, list(vec.items)):
            if any(kd == "panic" for kd, _ in acc):
                out.append((pc, None, "panic", "closure panicked"))
                continue
            # each closure result is a boolean term; fork on every one of them
            states = [([], [])]
            for item, (_, r) in zip(vec.items, acc):
                nxt = []
                for cpc, kept in states:
                    nxt.append((cpc + [r.expr], kept + [item]))
                    nxt.append((cpc + ["(not %s)" % r.expr], kept))
                states = nxt
            for cpc, kept in states:
                env2 = mir.fork_env(env)
                it_.write_ref(a[0], VecVal(kept), env2)
                out.append((pc + cpc, Opaque("unit"), "return", None, {"env": env2}))
        return out
    eq_discr = lambda it_, a, c_: SV("bool", sem.simplify("(= %s %s)" % (it_.deref(a[0], it_.cur_env).discr.expr, it_.deref(a[1], it_.cur_env).discr.expr)))
    ne_discr = lambda it_, a, c_: SV("bool", sem.simplify("(not (= %s %s))" % (it_.deref(a[0], it_.cur_env).discr.expr, it_.deref(a[1], it_.cur_env).discr.expr)))
    it.models.update({
        r"^<impl Iterator<Item = Event<'i>> as Iterator>::by_ref$": models.m_identity,
        r"^<impl Iterator<Item = Event<'i>> as Iterator>::next$": models.m_iter_next,
        r"^<&mut impl Iterator<Item = Event<'i>> as Iterator>::for_each::<": models.m_for_each,
        r"^<(DefineMode|BlockKind|Stage|error::Stage|Severity|error::Severity) as PartialEq>::eq$": eq_discr,
        r"^<(DefineMode|BlockKind|Stage|error::Stage|Severity|error::Severity) as PartialEq>::ne$": ne_discr,
        r"^Vec::<SourceDiag>::retain::<": m_retain,
        r"^Vec::<error::SourceDiag>::retain::<": m_retain,
        r"^PassResult::<.*>::new$": m_pass_result,
        r"^std::string::String::new$": lambda it_, a, c_: Opaque("empty string"),
        r"^Vec::<.*>::new$": lambda it_, a, c_: VecVal([]),
        r"^Arguments::<'_>::from_str$": models.m_opaque,
    })
    outs = it.run(f_pe, [col, models.IterVal(events)])
    items = []
    n = 0
    parse_idx = st_names.index("Parse")
    for o in outs:
        p = ">".join(o.trace[-2:])
        pcs = mcheck.pc_assert(o.pc)
        if o.kind == "panic":
            items.append(("parse-error short-circuit never panics (%s)" % str(o.msg)[:40], pcs, "unsat"))
            continue
        if o.kind != "return":
            continue
        res = [e for e in o.events if isinstance(e, tuple) and e[0] == "result"]
        if len(res) != 1:
            items.append(("parse-error short-circuit path[%s]: the pass ends in exactly one PassResult" % p, pcs, "unsat"))
            continue
        n += 1
        _, output, rep = res[0]
        no_output = "true" if (isinstance(output, Enum) and output.discr.expr == "0") else "false"
        buf = rep.fields[str(sr.index("buf"))].items if isinstance(rep, Agg) else None
        if buf is None:
            want = "false"
        else:
            # expected content, decided per earlier diagnostic by its stage
            alts = []
            for keep0 in (True, False):
                for keep1 in (True, False):
                    exp = ([old[0]] if keep0 else []) + ([old[1]] if keep1 else []) + [e1, w1, e2]
                    same_list = len(buf) == len(exp) and all(x is y for x, y in zip(buf, exp))
                    cond = "(and (%s (= %s %d)) (%s (= %s %d)))" % ("=" if keep0 else "distinct", "true", 1, "=", "true", 1)
                    c0 = "(= %s %d)" % (old[0].stage_expr, parse_idx)
                    c1 = "(= %s %d)" % (old[1].stage_expr, parse_idx)
                    alts.append("(and %s %s %s)" % (c0 if keep0 else "(not %s)" % c0, c1 if keep1 else "(not %s)" % c1, "true" if same_list else "false"))
            want = "(or %s)" % " ".join(alts)
        items.append(("parse-error short-circuit path[%s]: no output, and the report holds exactly the earlier parse-stage diagnostics, the error and "
                      "every later parser error/warning, in order - every analysis-stage diagnostic is dropped" % p,
                      pcs + ["(not (and %s %s))" % (no_output, want)], "unsat"))
        items.append(("reachable: parse-error short-circuit path[%s]" % p, pcs, "info"))
    if n == 0:
        run.inconclusive.append("parse_events: the Error branch produced no result path")
    run.bounds.append("M: parse_events over [Error, Start, Warning, Error, End] from a report with two earlier diagnostics of symbolic stage and severity")
    batch = mcheck.Batch(ms, "c07-err", list(sem.decls), timeout_s=60)

    def on_sat(name):
        def cb(model, ob, item):
            bad = judge_short_circuit(nat)
            run.traces_validated += len(SHORT_CASES)
            if bad:
                run.violation("kernel=analysis::RecipeCollector::parse_events parse-error-short-circuit", "; ".join(bad[:2])[:600],
                              dict(engine="mir-smt", replay="short_circuit"))
                ob["status"] = "violated"
            else:
                run.inconclusive.append("C07 %s: candidate does not reproduce through the public parser" % name[:80])
        return cb
    for name, asserts, expect in items:
        batch.add(name, asserts, expect, (), on_sat(name))
    batch.run()


SHORT_CASES = [
    # an analysis-stage warning / error before a parse error: only parse-stage diagnostics may remain, and there is no output
    "#pot{=1}\\n\\n@{}\\n",
    ">> [flavour]: sweet\\n@salt{=some}\\n\\n~{5}\\n",
    "@&ghost{}\\n\\n@{}\\n",
]


def judge_short_circuit(nat, profile="debug"):
    bad = []
    for text in SHORT_CASES:
        r = nat.call("parse_report", "extended", text, profile=profile)
        if "error" in r or r.get("panic"):
            bad.append("%r: parse failed %s" % (text, r))
            continue
        if r.get("has_output") is not False:
            bad.append("%r: a parse error must suppress the output" % text)
        stray = [d for d in r.get("diags", []) if d.get("stage") != "Parse"]
        if stray:
            bad.append("%r: analysis-stage diagnostics survive next to a parse error: %s" % (text, [d.get("message") for d in stray]))
        if not any(d.get("severity") == "Error" for d in r.get("diags", [])):
            bad.append("%r: expected a parse error" % text)
    return bad


CASES = [
    # (text, expected number of scaling-lock warnings)
    ("@salt{=1%tsp}\\n", 0),
    ("@salt{=1-2%tsp}\\n", 0),
    ("@salt{=1}\\n", 0),
    ("@salt{1%tsp}\\n", 0),
    ("@salt{=some}\\n", 1),
    ("#pan{=1}\\n", 1),
    ("~{=5%min}\\n", 1),
]


def judge(nat, profile="debug"):
    bad = []
    for text, want in CASES:
        r = nat.call("parse_report", "extended", text, profile=profile)
        if "error" in r or r.get("panic"):
            bad.append("%r: parse failed %s" % (text, r))
            continue
        got = len([w for w in r["warnings"] if "scaling lock" in w.lower()])
        if got != want:
            bad.append("%r: %d scaling-lock warning(s), expected %d (warnings: %s)" % (text, got, want, r["warnings"]))
    return bad


def confirm(run, nat, name, ob):
    for profile in nat.bins:
        bad = judge(nat, profile)
        run.traces_validated += len(CASES)
        if bad:
            kind = "soundness" if "soundness" in name else "completeness"
            run.violation("kernel=analysis::RecipeCollector::value diagnostic=scaling-lock-warning %s" % kind,
                          "; ".join(bad[:3]), dict(engine="mir-smt", replay="parse_report", profile=profile))
            ob["status"] = "violated"
            return
    run.inconclusive.append("C07 %s: candidate does not reproduce through the public parser" % name)


def check(run):
    scr = scratch.Scratch()
    scr.copy_repo()
    scr.inject()
    nat = native.Native(scr)
    nat.build(log=os.path.join(run.logdir, "native-build.log"))
    try:
        m_part(run, scr, nat)
    except mir.Unsupported as e:
        run.inconclusive.append("encoder: %s" % e)
    # validation of the encoding's verdict against the real parser on the concrete cases (both must agree)
    bad = judge(nat)
    run.traces_validated += len(CASES)
    if bad and not run.violations:
        run.violation("validation-vector scaling-lock cases", "; ".join(bad[:3]), dict(engine="validation-vector", replay="parse_report"))
    if os.environ.get("VERIF_ONLY", "") in ("", "A"):
        # diagnostics built by the component handlers: stage, severity, when they are raised, where the primary label sits
        import analysis
        analysis.run_for(run, scr, nat, "C07")
    bad = judge_short_circuit(nat)
    run.traces_validated += len(SHORT_CASES)
    if bad and not run.violations:
        run.violation("validation-vector parse-error short-circuit", "; ".join(bad[:2])[:600], dict(engine="validation-vector", replay="short_circuit"))
    run.not_covered += [
        "every other diagnostic of the catalogue (parser-stage checks, references, notes, timers, modes, front matter): "
        "they sit behind the lexer/parser or build their messages with format!, out of reach of both engines (DESIGN 6)",
        "placement of labels, severity of the other diagnostics, validity definition, parse-error short-circuit",
    ]


def replay(run, path):
    scr = scratch.Scratch()
    scr.copy_repo()
    scr.inject()
    nat = native.Native(scr)
    nat.build()
    import analysis
    bad = judge(nat) + judge_short_circuit(nat) + analysis.judge_structure(nat)
    print("replay:", bad)
    if bad:
        print("VIOLATION property=C07 replay=%s" % path)
        return 1
    return 0
