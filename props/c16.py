"""C16 (one kernel) - converters built from configuration are consistent or rejected: the best-units list.

`BestConversions::new` (called by ConverterBuilder::finish for every physical quantity) from the MIR, with the unit index
look-up abstract (every name resolves to some declared unit, or is unknown) and `sort_by` over-approximated by "any order":
building the list must never panic, whatever units the configuration names as `best` for a quantity - it is either refused
or yields, for each named unit, its factor to the first unit of the sorted list (the base, factor 1).
Everything else of C16 (name / symbol / alias resolution, SI expansion, layering, precedence) is NOT decided."""
import os, re, json
import scratch, native, mcheck, mir, smt, models
from mir import SV, Agg, Enum, Opaque, OpenAgg, VecVal, fork_env
import c08

KNOWN = "known_findings.txt"


def m_part(run, scr, nat):
    ms = mcheck.MSession(run, scr)
    dump = ms.load_mir()
    decls = ms.decls
    f = dump.find_impl_method("new", r"-> Result<BestConversions, ")
    run.functions.append("convert::builder::BestConversions::new, convert::convert_f64 and the sort_by comparator closure (MIR; unit look-up abstract, sort_by = any order the executed comparator accepts)")
    ub = decls.structs["UnitBuilder"]
    uf = decls.structs.lookup("Unit", "convert")
    pqn = [v for v, _ in decls.enums["PhysicalQuantity"]]
    sizes = (2, 3) if run.tier == "quick" else (2, 3, 4)
    for k in sizes:
        sem = smt.RealSem(prefix="b%d" % k)
        mods = dict(models.STD_MODELS)
        mods.update(models.MORE_MODELS)
        mods.update(models.VEC_MODELS)
        mods.update(models.RESULT_MODELS)
        it = mir.Interp(dump, decls, sem, models=mods, max_paths=20000)
        names = [Opaque("best-unit name %d" % j) for j in range(k)]
        units = []
        for j in range(k):
            pq = sem.sym_int("u%d_pq" % j, "isize", 0, len(pqn) - 1)
            ratio = c08.sym_float_mag(sem, "u%d_ratio" % j, allow_zero=False, allow_neg=False)
            diff = c08.sym_float_mag(sem, "u%d_diff" % j)
            unit = OpenAgg("Unit", {str(uf.index("ratio")): SV("f64", ratio), str(uf.index("difference")): SV("f64", diff),
                                    str(uf.index("physical_quantity")): Enum("PhysicalQuantity", SV("isize", pq), {n: Agg("PhysicalQuantity::" + n, {}) for n in pqn}, pqn)})
            units.append(OpenAgg("UnitBuilder", {str(ub.index("unit")): unit}))
        found = [sem.sym_int("n%d_found" % j, "isize", 0, 1) for j in range(k)]

        def m_get_unit_id(it_, a, c_):
            nm = a[1] if isinstance(a[1], Opaque) else it_.deref(a[1], it_.cur_env)
            j = [i for i, n_ in enumerate(names) if n_ is nm]
            if not j:
                raise mir.Unsupported("get_unit_id of %r" % (nm,))
            j = j[0]
            return Enum("Result", SV("isize", "(- 1 %s)" % found[j]), {"Ok": Agg("Result::Ok", {"0": SV("usize", str(j))}),
                                                                       "Err": Agg("Result::Err", {"0": Opaque("UnknownUnit %d" % j)})}, ["Ok", "Err"])

        def m_collect_result(it_, a, c_):
            out = []
            for pc_, acc in models._apply_chain(it_, a[0]):
                # all Ok -> Ok(vec); otherwise the first Err
                conds, vals = [], []
                for r in acc:
                    conds.append("(= %s 0)" % r.discr.expr)
                    vals.append(r.variants["Ok"].fields["0"])
                out.append((pc_ + conds, it_._mk_enum("Result", "Ok", [VecVal(vals)]), "return", None))
                for i_, r in enumerate(acc):
                    out.append((pc_ + conds[:i_] + ["(= %s 1)" % r.discr.expr], it_._mk_enum("Result", "Err", [r.variants["Err"].fields["0"]]), "return", None))
            return out

        ORD = ["Less", "Equal", "Greater"]

        def m_partial_cmp_f64(it_, a, c_):
            """`f64::partial_cmp` on finite values (ratios are assumed finite): Some(Less / Equal / Greater)"""
            x, y = it_.deref(a[0], it_.cur_env), it_.deref(a[1], it_.cur_env)
            d = sem.define("Int", "(ite (< %s %s) 0 (ite (= %s %s) 1 2))" % (x.expr, y.expr, x.expr, y.expr), "ord")
            o = Enum("Ordering", SV("isize", d), {n: Agg("Ordering::" + n, {}) for n in ORD}, ORD)
            return it_._mk_enum("Option", "Some", [o])

        def m_sort_by_comparator(it_, a, c_):
            """`sort_by`: the elements in an order the comparator (executed from the MIR on every adjacent pair of the result)
            does not object to - for a total order exactly the sorted orders (stability, i.e. the order of ties, is left open)"""
            import itertools
            v = it_.deref(a[0], it_.cur_env)
            out = []
            perms = list(itertools.permutations(range(len(v.items))))
            for pi, perm in enumerate(perms):
                res = [v.items[i] for i in perm]
                pairs = [Agg("(&usize, &usize)", {"0": res[i], "1": res[i + 1]}) for i in range(len(res) - 1)]
                for pc2, env2, acc in it_.run_closure_seq(a[1], pairs, unpack=True):
                    if any(kd == "panic" for kd, _ in acc):
                        out.append((pc2, None, "panic", [x for kd, x in acc if kd == "panic"][0]))
                        continue
                    conds = []
                    for _, r in acc:
                        if not (isinstance(r, Enum) and list(r.names) == ORD):
                            raise mir.Unsupported("sort_by comparator returned %r" % (r,))
                        conds.append("(not (= %s 2))" % r.discr.expr)
                    env3 = fork_env(env2)
                    it_.write_ref(a[0], VecVal(res), env3)
                    out.append((pc2 + conds, Opaque("unit"), "return", None, {"env": env3}))
            return out
        mine = {
            r"^UnitIndex::get_unit_id$": m_get_unit_id,
            r"^<std::string::String as Deref>::deref$": models.m_identity,
            r"^<Vec<usize> as Deref>::deref$": models.m_identity,
            r"^Box::<.*>::new$": models.m_identity,
            r"^<convert::Unit as Clone>::clone$": models.m_identity,
            r"^core::slice::<impl \[usize\]>::iter$": lambda it_, a, c_: models.IterVal(list((a[0] if isinstance(a[0], VecVal) else it_.deref(a[0], it_.cur_env)).items)),
            r"^<std::slice::Iter<'_, std::string::String> as Iterator>::map::<": models.m_iter_map,
            r"^<std::iter::Map<std::slice::Iter<'_, std::string::String>, .*> as Iterator>::collect::<Result<Vec<usize>": m_collect_result,
            r"^<Vec<usize> as DerefMut>::deref_mut$": models.m_identity,
            r"^std::slice::<impl \[usize\]>::sort_by::<": m_sort_by_comparator,
            r"partial_cmp": m_partial_cmp_f64,
            r"^Vec::<\(f64, usize\)>::with_capacity$": lambda it_, a, c_: VecVal([]),
            r"^<Vec<usize> as IntoIterator>::into_iter$": models.m_vec_into_iter_owned,
            r"^<std::vec::IntoIter<usize> as IntoIterator>::into_iter$": models.m_identity,
            r"^<std::vec::IntoIter<usize> as Iterator>::next$": models.m_iter_next,
            r"^<UnitBuilder as Deref>::deref$": lambda it_, a, c_: (a[0] if isinstance(a[0], Agg) else it_.deref(a[0], it_.cur_env)).fields[str(ub.index("unit"))],
        }
        mine.update({k_: v_ for k_, v_ in it.models.items() if k_ not in mine})
        it.models = mine
        # arguments by parameter type (the quantity the list is built for may or may not be a parameter)
        qv = sem.sym_int("for_pq", "isize", 0, len(pqn) - 1)
        args = []
        for loc, ty in f.args:
            if "String" in ty:
                args.append(VecVal(names))
            elif "UnitIndex" in ty:
                args.append(Opaque("the unit index"))
            elif "UnitBuilder" in ty:
                args.append(VecVal(units))
            elif "PhysicalQuantity" in ty:
                args.append(Enum("PhysicalQuantity", SV("isize", qv), {n: Agg("PhysicalQuantity::" + n, {}) for n in pqn}, pqn))
            else:
                raise mir.Unsupported("BestConversions::new has an unexpected parameter %s: %s" % (loc, ty))
        knows_q = any("PhysicalQuantity" in ty for _, ty in f.args)
        outs = it.run(f, args)
        items = []
        same_q = c08.conj(["(= u0_pq u%d_pq)" % j for j in range(1, k)])
        all_found = c08.conj(["(= %s 1)" % x for x in found])
        n_ok = 0
        for o in outs:
            p = ">".join(o.trace[-2:])
            pcs = mcheck.pc_assert(o.pc)
            if o.kind == "panic":
                items.append(("BestConversions::new on %d names never panics: %s" % (k, re.sub(r"\s+", " ", str(o.msg))[:70]), pcs, "unsat"))
                continue
            if o.kind != "return":
                continue
            if "Ok" in o.value.variants:
                n_ok += 1
                bc = o.value.variants["Ok"].fields["0"]
                lst = bc.fields["0"] if isinstance(bc, Agg) else None
                ok = isinstance(lst, VecVal) and len(lst.items) == k and sorted(int(t.fields["1"].expr) for t in lst.items) == list(range(k))
                cond = "false"
                if ok:
                    base = int(lst.items[0].fields["1"].expr)
                    cs = [all_found, "(= %s 1.0)" % lst.items[0].fields["0"].expr, same_q]
                    if knows_q:
                        cs.append("(= u0_pq for_pq)")
                    cond = c08.conj(cs)
                if ok:
                    ids = [int(t.fields["1"].expr) for t in lst.items]
                    inc = c08.conj(["(<= u%d_ratio u%d_ratio)" % (ids[i], ids[i + 1]) for i in range(k - 1)])
                    items.append(("BestConversions::new on %d names path[%s]: the best list is in increasing size (each unit's ratio to the "
                                  "base is at least that of the unit before it)" % (k, p), pcs + ["(not %s)" % inc], "unsat"))
                items.append(("BestConversions::new on %d names path[%s]: a list is built only when every name resolves to a unit of one physical quantity (the one "
                              "the list is for); it holds every named unit once, the first one with factor 1" % (k, p), pcs + ["(not %s)" % cond], "unsat"))
            else:
                items.append(("BestConversions::new on %d names path[%s]: a refusal means a name did not resolve or is a unit of another physical quantity" % (k, p),
                              pcs + [all_found, same_q] + (["(= u0_pq for_pq)"] if knows_q else []), "unsat"))
        if n_ok == 0:
            run.inconclusive.append("BestConversions::new on %d names: no successful path" % k)

        def on_sat(name):
            def cb(model, ob, item):
                bad = best_vectors(run, nat)
                if bad:
                    run.violation("kernel=BestConversions::new best units: " + ("order" if "increasing size" in bad else "another physical quantity"), bad, dict(engine="mir-smt", replay="best_units"))
                    ob["status"] = "violated"
                else:
                    run.inconclusive.append("C16 %s: candidate does not reproduce through the public builder" % name[:90])
            return cb
        b = mcheck.Batch(ms, "c16-%d" % k, list(sem.decls), timeout_s=60)
        for name, asserts, expect in items:
            b.add(name, asserts, expect, (), on_sat(name))
        b.run()
        if items:
            run.samples.append({"engine": "mir-smt", "obligation": items[0][0]})
    run.assumptions += [
        "UnitIndex::get_unit_id is abstract: name j resolves to the declared unit j or is unknown; units have arbitrary physical quantity, "
        "finite positive ratio and finite difference; `sort_by` returns the elements in any order its comparator - executed from the MIR on every adjacent pair - accepts (ties in any order)",
    ]
    run.bounds.append("M: best lists of 2-3 names (up to 4 in the thorough tier)")
    ms.close()


BEST_CASES = [
    # (best list for `time`, expectation): "ok" = builds, "error" = refused with a build error; a panic is never acceptable
    ('["min","s"]', "ok"),
    ('["s"]', "ok"),
    ('["s","min"]', "ok"),          # "ok" also requires the built list to be in increasing size
    ('[]', "error"),
    ('["nope"]', "error"),
    ('["min","m"]', "error"),       # `m` is a unit of length
    ('["m"]', "error"),
]


def best_vectors(run, nat):
    for best, want in BEST_CASES:
        r = nat.call("best_units", best)
        run.traces_validated += 1
        got = r.get("outcome") if isinstance(r, dict) else None
        if got != want:
            return "a units file whose best units for `time` are %s: builder outcome %r (%s), documented: %s" % (best, got, str(r.get("detail", ""))[:120] if isinstance(r, dict) else r, want)
    return None


def check(run):
    scr = scratch.Scratch()
    scr.copy_repo()
    scr.inject()
    nat = native.Native(scr)
    nat.build(log=os.path.join(run.logdir, "native-build.log"))
    try:
        m_part(run, scr, nat)
    except mir.Unsupported as e:
        run.inconclusive.append("encoder: %s" % e)
    bad = best_vectors(run, nat)
    if bad and not run.violations:
        run.violation("validation-vector best_units", bad, dict(engine="validation-vector", replay="best_units"))
    run.not_covered += [
        "name / symbol / alias / SI-prefixed resolution, duplicate keys, layering and precedence of units files, fractions configuration, "
        "that the bundled converter equals the shipped units file (ConverterBuilder is HashMap<Arc<str>, usize> bookkeeping over user strings)",
    ]


def replay(run, path):
    scr = scratch.Scratch()
    scr.copy_repo()
    scr.inject()
    nat = native.Native(scr)
    nat.build()
    bad = best_vectors(run, nat)
    print("replay:", bad or "every best-units case as documented")
    if bad:
        print("VIOLATION property=C16 replay=%s" % path)
        return 1
    return 0
