"""C08 - scaling multiplies exactly the scalable amounts and nothing else.

Engine M on the MIR of: linear_scale, <ScalableValue|ScalableQuantity|Ingredient|Cookware|Timer as Scale>::{scale,
default_scale}, ScalableRecipe::scale_to_servings, RecipeCollector::value (which values are Linear).
Engine K: the whole-recipe ScalableRecipe::scale / default_scale on a small concrete-shape recipe.
"""
import os, json, re
from fractions import Fraction
import scratch, kani_group, registry, native, mcheck, mir, smt, models
from mir import SV, Agg, Enum, Opaque, OpenAgg, VecVal

U = Fraction(1, 2 ** 53)
PANIC_ONLY = False      # set by the C03 check: keep only the no-panic obligations
MAXV = 10 ** 9
MINV = Fraction(1, 10 ** 9)


def absx(e):
    return "(ite (>= %s 0.0) %s (- %s))" % (e, e, e)


def same(a, b):
    """SMT condition under which two symbolic values are identical (structure + scalar leaves);
    opaque leaves must be the very same object (moved unchanged)."""
    if a is b:
        return "true"
    if isinstance(a, SV) and isinstance(b, SV):
        if a.expr == b.expr:
            return "true"
        if a.sort in ("f64", "f32") or b.sort in ("f64", "f32") or a.sort == b.sort or (a.sort in smt.INT_BITS and b.sort in smt.INT_BITS):
            return "(= %s %s)" % (a.expr, b.expr)
        return "false"
    if isinstance(a, Agg) and isinstance(b, Agg):
        if set(a.fields) != set(b.fields):
            return "false"
        return conj([same(a.fields[k], b.fields[k]) for k in sorted(a.fields)])
    if isinstance(a, Enum) and isinstance(b, Enum):
        parts = [same(a.discr, b.discr)]
        for vn in set(a.variants) | set(b.variants):
            if vn in a.variants and vn in b.variants:
                idx = a.names.index(vn)
                parts.append("(=> (= %s %d) %s)" % (a.discr.expr, idx, same(a.variants[vn], b.variants[vn])))
            else:
                # a variant one side cannot be in: then the discriminant must not select it
                idx = a.names.index(vn)
                parts.append("(not (= %s %d))" % ((a if vn in a.variants else b).discr.expr, idx))
        return conj(parts)
    return "false"


def conj(xs):
    xs = [x for x in xs if x != "true"]
    if any(x == "false" for x in xs):
        return "false"
    if not xs:
        return "true"
    return xs[0] if len(xs) == 1 else "(and %s)" % " ".join(xs)


class Ctx:
    pass


def build(run, scr, ms=None):
    if ms is None:
        ms = mcheck.MSession(run, scr)
        ms.load_mir()
    dump = ms.dump
    decls = ms.decls
    sem = smt.RealSem()
    c = Ctx()
    c.ms, c.dump, c.decls, c.sem = ms, dump, decls, sem
    F = dump.find_impl_method
    c.f_value = F("value", r"\(_1: quantity::Number\) -> f64")
    c.f_linear = dump.find(r"^linear_scale$")
    c.f_factor = F("factor", r"\(_1: &ScaleTarget\) -> f64")
    c.f_sv_scale = F("scale", r"\(_1: ScalableValue, _2: ScaleTarget\)")
    c.f_sv_default = F("default_scale", r"\(_1: ScalableValue\) -> quantity::Value")
    c.f_q_scale = F("scale", r"\(_1: quantity::Quantity<ScalableValue>, _2: ScaleTarget\)")
    c.f_q_default = F("default_scale", r"\(_1: quantity::Quantity<ScalableValue>\) -> quantity::Quantity")
    c.f_comp = {}
    for kind in ("Ingredient", "Cookware", "Timer"):
        c.f_comp[kind] = (F("scale", r"\(_1: model::%s<ScalableValue>, _2: ScaleTarget\)" % kind),
                          F("default_scale", r"\(_1: model::%s<ScalableValue>\) -> model::%s" % (kind, kind)))
    c.f_servings = F("scale_to_servings", r"_1: Recipe<Servings, ScalableValue>, _2: u32")
    c.f_collect_value = F("value", r"_1: &mut RecipeCollector<'_, '_>, _2: parser::model::QuantityValue, _3: bool")
    run.functions += ["scale::linear_scale", "quantity::Number::value", "<ScalableValue as Scale>::{scale,default_scale}",
                      "<ScalableQuantity as Scale>::{scale,default_scale}", "<Ingredient|Cookware|Timer as Scale>::{scale,default_scale}",
                      "ScalableRecipe::scale_to_servings", "analysis::RecipeCollector::value"]
    inline = [
        (r"^quantity::Number::value$", c.f_value),
        (r"^linear_scale$", c.f_linear),
        (r"^ScaleTarget::factor$", c.f_factor),
        (r"^<ScalableValue as Scale>::scale$", c.f_sv_scale),
        (r"^<ScalableValue as Scale>::default_scale$", c.f_sv_default),
        (r"^<quantity::Quantity<ScalableValue> as Scale>::scale$", c.f_q_scale),
        (r"^<quantity::Quantity<ScalableValue> as Scale>::default_scale$", c.f_q_default),
    ]
    mods = dict(models.STD_MODELS)
    mods.update(models.MORE_MODELS)
    mods[r"^<TextValueError as Into<ScaleError>>::into$"] = models.m_opaque
    c.recipe_scale_calls = []

    def m_recipe_scale(it, args, callee):
        c.recipe_scale_calls.append(args)
        return Opaque("ScaledRecipe", args)
    mods[r"^scale::<impl Recipe<Servings, ScalableValue>>::scale$"] = m_recipe_scale
    mods[r"^<Vec<u32> as Deref>::deref$"] = models.m_identity

    # diagnostics construction in RecipeCollector::value: opaque, but a pushed warning is an observable event
    for pat in (r"^Located::<quantity::Value>::span$", r"^<span::Span as ToOwned>::to_owned$", r"^<span::Span as Into<span::Span>>::into$",
                r"^<&str as Into<Cow<'_, str>>>::into$", r"^SourceDiag::warning::<&str>$", r"^SourceDiag::add_hint::<&str>$"):
        mods[pat] = models.m_opaque

    def m_warn(it, args, callee):
        it.emit("warn")
        return Opaque("unit")
    mods[r"^SourceReport::warn$"] = m_warn

    def m_fn_item_map(it, args, callee):
        # Option::map(Quantity::default_scale) passes a function item, printed as a bare path constant
        return models.m_option_map(it, args, callee)
    c.it = mir.Interp(dump, decls, sem, inline=inline, models=mods)
    c.it.fn_item = lambda path: fn_item(c, path)
    return c


def fn_item(c, path):
    """resolve a function item passed by value (e.g. `Quantity::<ScalableValue>::default_scale`)"""
    if "Quantity" in path and "default_scale" in path:
        return c.f_q_default
    if "ScalableValue" in path and "default_scale" in path:
        return c.f_sv_default
    raise mir.Unsupported("function item %s" % path)


# ---- symbolic inputs -----------------------------------------------------------------------------

def sym_float_mag(sem, name, lo=MINV, hi=MAXV, allow_zero=True, allow_neg=True):
    sem.decls.append("(declare-const %s Real)" % name)
    alts = []
    if allow_zero:
        alts.append("(= %s 0.0)" % name)
    alts.append("(and (>= %s %s) (<= %s %s))" % (name, smt.rat(lo), name, smt.rat(hi)))
    if allow_neg:
        alts.append("(and (<= %s (- %s)) (>= %s (- %s)))" % (name, smt.rat(lo), name, smt.rat(hi)))
    sem.decls.append("(assert (or %s))" % " ".join(alts))
    return name


def sym_number(c, name):
    sem, decls = c.sem, c.decls
    d = sem.sym_int(name + "_tag", "isize", 0, 1)
    reg = sym_float_mag(sem, name + "_reg")
    whole = sem.sym_int(name + "_whole", "u32", 0, 10 ** 9)
    num = sem.sym_int(name + "_num", "u32", 0, 64)
    den = sem.sym_int(name + "_den", "u32", 1, 64)
    err = sym_float_mag(sem, name + "_err", MINV, 1000)
    names = [v for v, _ in decls.enums["Number"]]
    ff = dict(decls.enums["Number"])["Fraction"]
    fr = {str(ff.index("whole")): SV("u32", whole), str(ff.index("num")): SV("u32", num),
          str(ff.index("den")): SV("u32", den), str(ff.index("err")): SV("f64", err)}
    e = Enum("Number", SV("isize", d), {"Regular": Agg("Number::Regular", {"0": SV("f64", reg)}),
                                        "Fraction": Agg("Number::Fraction", fr)}, names)
    ri, fi = names.index("Regular"), names.index("Fraction")
    # exact real value and magnitude bound of the number
    exact = "(ite (= %s %d) %s (+ (+ (to_real %s) %s) (/ (to_real %s) (to_real %s))))" % (d, ri, reg, whole, err, num, den)
    mag = "(ite (= %s %d) %s (+ (+ (to_real %s) %s) (/ (to_real %s) (to_real %s))))" % (d, ri, absx(reg), whole, absx(err), num, den)
    e.exact, e.mag = exact, mag
    return e


def sym_value(c, name):
    names = [v for v, _ in c.decls.enums["Value"]]
    d = c.sem.sym_int(name + "_tag", "isize", 0, len(names) - 1)
    n = sym_number(c, name + "_n")
    s = sym_number(c, name + "_s")
    e = sym_number(c, name + "_e")
    rf = dict(c.decls.enums["Value"])["Range"]
    v = Enum("Value", SV("isize", d), {
        "Number": Agg("Value::Number", {"0": n}),
        "Range": Agg("Value::Range", {str(rf.index("start")): s, str(rf.index("end")): e}),
        "Text": Agg("Value::Text", {"0": Opaque("text of " + name)})}, names)
    v.n, v.s, v.e = n, s, e
    v.idx = {k: names.index(k) for k in names}
    v.rf = rf
    return v


def sym_scalable(c, name):
    names = [v for v, _ in c.decls.enums["ScalableValue"]]
    d = c.sem.sym_int(name + "_kind", "isize", 0, len(names) - 1)
    v = sym_value(c, name + "_v")
    sv = Enum("ScalableValue", SV("isize", d), {"Fixed": Agg("ScalableValue::Fixed", {"0": v}),
                                                 "Linear": Agg("ScalableValue::Linear", {"0": v})}, names)
    sv.v = v
    sv.idx = {k: names.index(k) for k in names}
    return sv


def number_products(c, i, f):
    """[(pc, term)]: for each path of Number::value on the symbolic number i, the rounded product value(i)*f
    built with the same (memoised, deterministic) float operations the code under test must perform"""
    if not hasattr(i, "products"):
        i.products = []
        for o in c.it.run(c.f_value, [i]):
            if o.kind == "return":
                i.products.append((o.pc, c.sem.float_arith("Mul", o.value.expr, f, "f64")))
            elif o.kind == "panic":
                raise mir.Unsupported("Number::value can panic: %s" % o.msg)
    return i.products


def scaled_spec(c, inp, out, f):
    """SMT: `out` (a Value) is `inp` scaled by f: a number -> Regular(fl(value(n)*f)); a range -> both ends likewise.
    (That Number::value itself is whole + err + num/den is obligation O0.)"""
    nn = [v for v, _ in c.decls.enums["Number"]]
    ri = nn.index("Regular")

    def num_ok(o, i):
        if not isinstance(o, Enum) or "Regular" not in o.variants:
            return "false"
        x = o.variants["Regular"].fields["0"].expr
        return conj(["(= %s %d)" % (o.discr.expr, ri)] +
                    ["(=> %s (= %s %s))" % (conj(pc), x, term) for pc, term in number_products(c, i, f)])
    if not isinstance(out, Enum):
        return "false"
    parts = []
    if "Number" in out.variants:
        parts.append("(and (= %s %d) (= %s %d) %s)" % (inp.discr.expr, inp.idx["Number"], out.discr.expr, inp.idx["Number"],
                                                       num_ok(out.variants["Number"].fields["0"], inp.n)))
    if "Range" in out.variants:
        ro = out.variants["Range"].fields
        parts.append("(and (= %s %d) (= %s %d) %s %s)" % (inp.discr.expr, inp.idx["Range"], out.discr.expr, inp.idx["Range"],
                                                          num_ok(ro[str(inp.rf.index("start"))], inp.s),
                                                          num_ok(ro[str(inp.rf.index("end"))], inp.e)))
    if not parts:
        return "false"
    return parts[0] if len(parts) == 1 else "(or %s)" % " ".join(parts)


def outcome_is(c, oc, name):
    names = [v for v, _ in c.decls.enums["ScaleOutcome"]]
    if not isinstance(oc, Enum):
        return "false"
    return "(= %s %d)" % (oc.discr.expr, names.index(name))


# ---- the obligations -----------------------------------------------------------------------------

def m_part(run, scr, nat):
    c = build(run, scr)
    sem, it, decls = c.sem, c.it, c.decls
    f = sym_float_mag(sem, "f", Fraction(1, 10 ** 6), 10 ** 6, allow_zero=False, allow_neg=False)
    tgt = Agg("ScaleTarget", {"0": SV("f64", f)})
    sv = sym_scalable(c, "x")
    V = sv.v
    unit = Opaque("unit string")
    run.assumptions += [
        "factor in [1e-6, 1e6]; plain numbers 0 or magnitude in [1e-9, 1e9]; fractions whole <= 1e9, num <= 64, 1 <= den <= 64, |err| in {0} U [1e-9,1e3]",
        "real+delta float model (no overflow/underflow on these ranges); strings and other moved payloads are opaque tokens that must come out as the same token",
        "the scaled number must be the float product fl(Number::value(n) * factor) - compared as terms (float operations are deterministic); "
        "Number::value itself is checked against whole + err + num/den (4u)",
    ]
    run.bounds.append("M: loop-free CFGs; every path of each encoded function enumerated")
    items = []   # (name, pc, negated-post, expect)

    def ob(name, pc, post, expect="unsat"):
        if PANIC_ONLY and "panic" not in name:
            return
        items.append((name, mcheck.pc_assert(pc), post, expect))

    is_text = "(= %s %d)" % (V.discr.expr, V.idx["Text"])
    is_fixed = "(= %s %d)" % (sv.discr.expr, sv.idx["Fixed"])
    is_linear = "(= %s %d)" % (sv.discr.expr, sv.idx["Linear"])

    # O0 Number::value is whole + err + num/den (4u), Regular(v) is v
    for o in it.run(c.f_value, [V.n]):
        if o.kind == "return":
            ob("Number::value path[%s] = whole + err + num/den within 4u" % ">".join(o.trace[-2:]), o.pc,
               "(> %s (* %s %s))" % (absx("(- %s %s)" % (o.value.expr, V.n.exact)), smt.rat(4 * U), V.n.mag))
        elif o.kind == "panic":
            ob("Number::value never panics", o.pc, "true")
    for i in (V.n, V.s, V.e):
        number_products(c, i, f)

    # O1 linear_scale
    outs = it.run(c.f_linear, [V, SV("f64", f)])
    n_ok = 0
    for o in outs:
        if o.kind == "panic":
            ob("linear_scale never panics: %s" % o.msg, o.pc, "true")
        elif o.kind == "return":
            res = o.value
            if "Ok" in res.variants:
                n_ok += 1
                ob("linear_scale Ok path[%s]: value*factor for numbers and both range ends (8u)" % ">".join(o.trace[-3:]),
                   o.pc, "(not %s)" % scaled_spec(c, V, res.variants["Ok"].fields["0"], f))
                ob("reachable linear_scale Ok path[%s]" % ">".join(o.trace[-3:]), o.pc, "true", "sat")
            else:
                ob("linear_scale Err only for text", o.pc, "(not %s)" % is_text)
    if n_ok < 2:
        run.inconclusive.append("linear_scale: expected Number and Range success paths, found %d" % n_ok)

    # O2 ScalableValue::scale
    outs = it.run(c.f_sv_scale, [sv, tgt])
    for o in outs:
        p = ">".join(o.trace[-3:])
        if o.kind == "panic":
            ob("ScalableValue::scale never panics", o.pc, "true")
            continue
        if o.kind != "return":
            continue
        val, oc = o.value.fields["0"], o.value.fields["1"]
        want = "(or (and %s %s %s) (and %s (not %s) %s %s) (and %s %s %s %s))" % (
            is_fixed, same(val, V), outcome_is(c, oc, "Fixed"),
            is_linear, is_text, scaled_spec(c, V, val, f), outcome_is(c, oc, "Scaled"),
            is_linear, is_text, same(val, V), outcome_is(c, oc, "Error"))
        ob("ScalableValue::scale path[%s]: Fixed=>unchanged/Fixed; Linear numeric=>x*f/Scaled; Linear text=>unchanged/Error" % p, o.pc, "(not %s)" % want)
    # O3 default_scale: written value verbatim
    for o in it.run(c.f_sv_default, [sv]):
        if o.kind == "return":
            ob("ScalableValue::default_scale returns the written value verbatim path[%s]" % ">".join(o.trace[-2:]), o.pc, "(not %s)" % same(o.value, V))
        elif o.kind == "panic":
            ob("ScalableValue::default_scale never panics", o.pc, "true")

    # O4 quantity: the unit string is moved through untouched
    qf = decls.structs.lookup("Quantity", "quantity")
    q = Agg("Quantity", {str(qf.index("value")): sv, str(qf.index("unit")): models.mk_option(it, SV("isize", sem.sym_int("unit_some", "isize", 0, 1)), unit)})
    for o in it.run(c.f_q_scale, [q, tgt]):
        if o.kind != "return":
            if o.kind == "panic":
                ob("Quantity::scale never panics", o.pc, "true")
            continue
        qo, oc = o.value.fields["0"], o.value.fields["1"]
        val, un = qo.fields[str(qf.index("value"))], qo.fields[str(qf.index("unit"))]
        want = "(and %s (or (and %s %s %s) (and %s (not %s) %s %s) (and %s %s %s %s)))" % (
            same(un, q.fields[str(qf.index("unit"))]),
            is_fixed, same(val, V), outcome_is(c, oc, "Fixed"),
            is_linear, is_text, scaled_spec(c, V, val, f), outcome_is(c, oc, "Scaled"),
            is_linear, is_text, same(val, V), outcome_is(c, oc, "Error"))
        ob("Quantity::scale path[%s]: unit untouched, value per kind" % ">".join(o.trace[-2:]), o.pc, "(not %s)" % want)
    for o in it.run(c.f_q_default, [q]):
        if o.kind == "return":
            want = "(and %s %s)" % (same(o.value.fields[str(qf.index("unit"))], q.fields[str(qf.index("unit"))]),
                                    same(o.value.fields[str(qf.index("value"))], V))
            ob("Quantity::default_scale: value and unit verbatim", o.pc, "(not %s)" % want)

    # O5 components
    has_q = sem.sym_int("has_quantity", "isize", 0, 1)
    for kind, (f_scale, f_default) in c.f_comp.items():
        fields = decls.structs.lookup(kind, "model")
        qi = str(fields.index("quantity"))
        payload = sv if kind == "Cookware" else q
        comp = Agg(kind, {str(i): Opaque("%s.%s" % (kind, fn)) for i, fn in enumerate(fields)})
        if "modifiers" in fields:
            comp.fields[str(fields.index("modifiers"))] = SV("u16", sem.sym_int("%s_modifiers" % kind, "u16"))
        comp.fields[qi] = models.mk_option(it, SV("isize", has_q), payload)
        others = [k for k in comp.fields if k != qi]
        for o in it.run(f_scale, [comp, tgt]):
            p = ">".join(o.trace[-2:])
            if o.kind == "panic":
                ob("%s::scale never panics" % kind, o.pc, "true")
                continue
            if o.kind != "return":
                continue
            co, oc = o.value.fields["0"], o.value.fields["1"]
            keep = conj([same(co.fields[k], comp.fields[k]) for k in others])
            qo = co.fields[qi]
            if kind == "Cookware":
                val_of = lambda x: x
                unit_ok = "true"
            else:
                val_of = lambda x: x.fields[str(qf.index("value"))]
                unit_ok = None
            if "Some" in qo.variants:
                inner = qo.variants["Some"].fields["0"]
                val = val_of(inner)
                uo = "true" if kind == "Cookware" else same(inner.fields[str(qf.index("unit"))], q.fields[str(qf.index("unit"))])
                some_case = "(and (= %s 1) (= %s 1) %s (or (and %s %s %s) (and %s (not %s) %s %s) (and %s %s %s %s)))" % (
                    has_q, qo.discr.expr, uo,
                    is_fixed, same(val, V), outcome_is(c, oc, "Fixed"),
                    is_linear, is_text, scaled_spec(c, V, val, f), outcome_is(c, oc, "Scaled"),
                    is_linear, is_text, same(val, V), outcome_is(c, oc, "Error"))
            else:
                some_case = "false"
            none_case = "(and (= %s 0) (= %s 0) %s)" % (has_q, qo.discr.expr, outcome_is(c, oc, "NoQuantity"))
            ob("%s::scale path[%s]: other fields moved unchanged; quantity per kind; NoQuantity iff absent" % (kind, p), o.pc,
               "(not (and %s (or %s %s)))" % (keep, some_case, none_case))
        for o in it.run(f_default, [comp]):
            if o.kind != "return":
                if o.kind == "panic":
                    ob("%s::default_scale never panics" % kind, o.pc, "true")
                continue
            co = o.value
            keep = conj([same(co.fields[k], comp.fields[k]) for k in others])
            qo = co.fields[qi]
            if "Some" in qo.variants:
                inner = qo.variants["Some"].fields["0"]
                if kind == "Cookware":
                    some_case = "(and (= %s 1) (= %s 1) %s)" % (has_q, qo.discr.expr, same(inner, V))
                else:
                    some_case = "(and (= %s 1) (= %s 1) %s %s)" % (has_q, qo.discr.expr, same(inner.fields[str(qf.index("value"))], V),
                                                                  same(inner.fields[str(qf.index("unit"))], q.fields[str(qf.index("unit"))]))
            else:
                some_case = "false"
            none_case = "(and (= %s 0) (= %s 0))" % (has_q, qo.discr.expr)
            ob("%s::default_scale: written values verbatim" % kind, o.pc, "(not (and %s (or %s %s)))" % (keep, some_case, none_case))

    # O6 which values are Linear (analysis)
    lf = decls.structs["Located"]
    qv = decls.structs["QuantityValue"]
    lock = models.mk_option(it, SV("isize", sem.sym_int("lock", "isize", 0, 1)), Opaque("span"))
    located = Agg("Located", {str(lf.index("inner")): V, str(lf.index("span")): Opaque("span")})
    qval = Agg("QuantityValue", {str(qv.index("value")): located, str(qv.index("scaling_lock")): lock})
    sem.decls.append("(declare-const is_ingredient Bool)")
    collector = OpenAgg("RecipeCollector", {})
    svn = [v for v, _ in decls.enums["ScalableValue"]]
    for o in it.run(c.f_collect_value, [collector, qval, SV("bool", "is_ingredient")]):
        if o.kind == "panic":
            ob("RecipeCollector::value never panics", o.pc, "true")
            continue
        if o.kind != "return":
            continue
        res = o.value
        lin = "(and is_ingredient (not %s) (= lock 0))" % is_text
        payload = list(res.variants.values())[0].fields["0"]
        want = "(and (= (= %s %d) %s) %s)" % (res.discr.expr, svn.index("Linear"), lin, same(payload, V))
        ob("RecipeCollector::value path[%s]: Linear iff ingredient & not text & not locked; written value kept" % ">".join(o.trace[-2:]),
           o.pc, "(not %s)" % want)

    # O7 scale_to_servings: factor = target / first declared servings (1 when none)
    rf = decls.structs["Recipe"]
    n = sem.sym_int("n_target", "u32", 0, 10 ** 6)
    ln = sem.sym_int("serv_len", "usize", 0, 8)
    first = sem.sym_int("serv_first", "u32", 1, 10 ** 6)
    last = sem.sym_int("serv_last", "u32", 1, 10 ** 6)
    sem.decls.append("(assert (=> (<= serv_len 1) (= serv_first serv_last)))")
    has_serv = sem.sym_int("has_servings", "isize", 0, 1)
    vec = Agg("vec", {"len": SV("usize", ln), "first": SV("u32", first), "last": SV("u32", last)})
    servings = Agg("Servings", {"0": models.mk_option(it, SV("isize", has_serv), vec)})
    recipe = OpenAgg("Recipe", {str(rf.index("data")): servings})
    c.recipe_scale_calls.clear()
    outs = it.run(c.f_servings, [recipe, SV("u32", n), Opaque("converter")])
    k = 0
    for o in outs:
        if o.kind == "panic":
            ob("scale_to_servings never panics: %s" % o.msg, o.pc, "true")
            continue
        if o.kind != "return" or not isinstance(o.value, Opaque):
            continue
        args = o.value.args
        fac = args[1].expr
        base = "(ite (and (= has_servings 1) (> serv_len 0)) (to_real serv_first) 1.0)"
        ob("scale_to_servings path[%s]: scales the same recipe by target/first-servings (2u)" % ">".join(o.trace[-2:]), o.pc,
           "(not (and %s (<= %s (* %s (/ (to_real n_target) %s)))))" % (
               "true" if args[0] is recipe else "false",
               absx("(- %s (/ (to_real n_target) %s))" % (fac, base)), smt.rat(2 * U), base))
        k += 1
    if k == 0:
        run.inconclusive.append("scale_to_servings: no path reaches ScalableRecipe::scale")

    validate = []
    if not PANIC_ONLY:
        # translator validation vectors for linear_scale: (factor, number) -> the encoding's Ok(Number) path must predict the real result
        lin_outs = [o for o in it.run(c.f_linear, [V, SV("f64", f)]) if o.kind == "return" and "Ok" in o.value.variants
                    and "Number" in o.value.variants["Ok"].fields["0"].variants]
        for (ff, reg) in ((2.5, 3.0), (0.5, 300.0), (3.0, 0.1)):
            for o in lin_outs:
                x = o.value.variants["Ok"].fields["0"].variants["Number"].fields["0"].variants["Regular"].fields["0"].expr
                validate.append((ff, reg, o.pc, x))
    # O8 whole-recipe plumbing of ScalableRecipe::scale / default_scale: iterators, map closures, unzip / collect.
    #    The per-component functions (decided above) are summarised by tokens "scaled(component, target)" /
    #    "outcome(component, target)"; `fit` is a no-op here (that it keeps the amount is C09's claim).
    if not PANIC_ONLY:
        recipe_plumbing(run, c, ob, tgt, f)

    D = list(sem.decls)
    for (ff, reg, pc, x) in validate:
        fix = ["(= f %s)" % smt.rat(Fraction(ff)), "(= x_v_tag %d)" % V.idx["Number"], "(= x_v_n_tag 0)", "(= x_v_n_reg %s)" % smt.rat(Fraction(reg))]
        v_, m_, dt, errs = mcheck.solve_file(c.ms.primary, D, mcheck.pc_assert(pc) + fix, [x], 30, os.path.join(run.logdir, "validate.smt2"))
        if v_ != "sat":
            continue
        real = nat.call("linear_scale", repr(ff), "N", "R", repr(reg))
        run.traces_validated += 1
        try:
            ok = abs(Fraction(m_[x]) - Fraction(real["n"]["v"])) <= 4 * U * abs(Fraction(real["n"]["v"]))
        except Exception:
            ok = False
        if not ok:
            run.inconclusive.append("translator validation linear_scale(%r * %r): encoding %s vs real %s" % (reg, ff, m_.get(x), real))
    batch = mcheck.Batch(c.ms, "c08", D, timeout_s=120 if run.tier == "quick" else 600, deltas=sem.deltas)
    also = ("z3",) if run.tier == "thorough" else ()
    INPUTS = ["f", "x_kind", "x_v_tag", "x_v_n_tag", "x_v_n_reg", "x_v_n_whole", "x_v_n_num", "x_v_n_den", "x_v_n_err",
              "x_v_s_tag", "x_v_s_reg", "x_v_e_tag", "x_v_e_reg", "has_quantity", "lock", "is_ingredient", "n_target", "serv_first",
              "serv_len", "has_servings"]

    def on_sat(name):
        def cb(model, obl, item):
            confirm(run, nat, name, model, obl)
        return cb
    for name, pcs, post, expect in items:
        batch.add(name, pcs + ([post] if post != "true" else []), expect, INPUTS if expect == "unsat" else (), on_sat(name), also)
    batch.run()
    if items:
        run.samples.append({"engine": "mir-smt", "obligation": items[0][0], "negated_post": items[0][2][:300]})
        run.samples.append({"engine": "mir-smt", "obligation": items[-1][0], "negated_post": items[-1][2][:300]})
    c.ms.close()


def recipe_plumbing(run, c, ob, tgt, f):
    sem, it, decls = c.sem, c.it, c.decls
    F = c.dump.find_impl_method
    f_scale = F("scale", r"\(_1: Recipe<Servings, ScalableValue>, _2: f64, _3: &Converter\)")
    f_default = F("default_scale", r"\(_1: Recipe<Servings, ScalableValue>\) -> Recipe<Scaled, quantity::Value>")
    run.functions.append("scale::ScalableRecipe::{scale, default_scale} (MIR; iterator chains over 2 ingredients, 1 cookware, 2 timers)")
    rf = decls.structs["Recipe"]
    sdf = decls.structs["ScaledData"]
    saved = dict(it.models)
    saved_fn_item = it.fn_item
    it.models.update(models.ITER_MODELS)
    summaries = {}

    def comp(kind, i):
        fields = decls.structs.lookup(kind, "model")
        return Agg(kind, {str(k): Opaque("%s %d field %s" % (kind, i, fn)) for k, fn in enumerate(fields)})

    def summary(kind, default):
        fields = decls.structs.lookup(kind, "model")
        qi = str(fields.index("quantity"))

        def model(it_, a, callee):
            comp_ = a[0]
            key = (id(comp_), default)
            if key not in summaries:
                out = Agg(kind, {str(k): Opaque("%s of %s field %s" % ("default-scaled" if default else "scaled", kind, fn), [comp_])
                                 for k, fn in enumerate(fields)})
                tag = sem.fresh("Int", "hasq")
                sem.decls.append("(assert (and (<= 0 %s) (<= %s 1)))" % (tag, tag))
                out.fields[qi] = models.mk_option(it_, SV("isize", tag), Opaque("quantity of the scaled %s" % kind, [comp_]))
                summaries[key] = (out, Opaque("outcome", [comp_]))
            out, oc = summaries[key]
            return out if default else Agg("tuple", {"0": out, "1": oc})
        return model
    for kind in ("Ingredient", "Cookware", "Timer"):
        it.models[r"^<model::%s<ScalableValue> as Scale>::scale$" % kind] = summary(kind, False)
    it.models[r"^convert::<impl quantity::Quantity>::fit$"] = lambda it_, a, cal: Opaque("fit result")
    it.models[r"^ScaleTarget::new$"] = lambda it_, a, cal: Agg("ScaleTarget", {"0": a[0]})
    it.fn_item = lambda path: summary([k for k in ("Ingredient", "Cookware", "Timer") if k in path][0], True) if "default_scale" in path else saved_fn_item(path)
    ings = [comp("Ingredient", 0), comp("Ingredient", 1)]
    cws = [comp("Cookware", 0)]
    tms = [comp("Timer", 0), comp("Timer", 1)]
    toks = {k: Opaque("recipe " + k) for k in ("metadata", "sections", "inline_quantities")}
    recipe = Agg("Recipe", {str(rf.index("metadata")): toks["metadata"], str(rf.index("sections")): toks["sections"],
                            str(rf.index("ingredients")): VecVal(ings), str(rf.index("cookware")): VecVal(cws),
                            str(rf.index("timers")): VecVal(tms), str(rf.index("inline_quantities")): toks["inline_quantities"],
                            str(rf.index("data")): Opaque("servings")})

    def lists_ok(out, default):
        conds = []
        for name, comps in (("ingredients", ings), ("cookware", cws), ("timers", tms)):
            got = out.fields[str(rf.index(name))]
            if not isinstance(got, VecVal) or len(got.items) != len(comps):
                return "false"
            for g, cpt in zip(got.items, comps):
                want = summaries.get((id(cpt), default))
                conds.append(same(g, want[0]) if want else "false")
        for k in ("metadata", "sections", "inline_quantities"):
            conds.append("true" if out.fields[str(rf.index(k))] is toks[k] else "false")
        return conj(conds)
    n = 0
    for o in it.run(f_scale, [recipe, SV("f64", f), Opaque("converter")]):
        if o.kind == "panic":
            ob("ScalableRecipe::scale never panics", o.pc, "true")
            continue
        if o.kind != "return":
            continue
        n += 1
        out = o.value
        data = out.fields[str(rf.index("data"))]
        ok_data = "false"
        if isinstance(data, Enum) and "Scaled" in data.variants:
            sd = data.variants["Scaled"].fields["0"]
            conds = ["(= %s %s)" % (sd.fields[str(sdf.index("target"))].fields["0"].expr, f)]
            for name, comps in (("ingredients", ings), ("cookware", cws), ("timers", tms)):
                lst = sd.fields[str(sdf.index(name))]
                if not isinstance(lst, VecVal) or len(lst.items) != len(comps):
                    conds.append("false")
                    continue
                for g, cpt in zip(lst.items, comps):
                    want = summaries.get((id(cpt), False))
                    conds.append("true" if (want and g is want[1]) else "false")
            ok_data = conj(conds)
        ob("ScalableRecipe::scale path[%s]: every component is replaced by its scaled version in place, the outcome lists line up with the "
           "components, the target factor is recorded, metadata / sections / inline quantities are moved untouched" % ">".join(o.trace[-2:]),
           o.pc, "(not (and %s %s))" % (lists_ok(out, False), ok_data))
    if n == 0:
        run.inconclusive.append("ScalableRecipe::scale: no returning path")
    n = 0
    for o in it.run(f_default, [recipe]):
        if o.kind == "panic":
            ob("ScalableRecipe::default_scale never panics", o.pc, "true")
            continue
        if o.kind != "return":
            continue
        n += 1
        out = o.value
        data = out.fields[str(rf.index("data"))]
        is_default = "true" if (isinstance(data, Enum) and "DefaultScaling" in data.variants and len(data.variants) == 1) else "false"
        ob("ScalableRecipe::default_scale path[%s]: every component default-scaled in place, reported as default scaling, the rest untouched" % ">".join(o.trace[-2:]),
           o.pc, "(not (and %s %s))" % (lists_ok(out, True), is_default))
    if n == 0:
        run.inconclusive.append("ScalableRecipe::default_scale: no returning path")
    it.models.clear()
    it.models.update(saved)
    it.fn_item = saved_fn_item


# ---- replay through the public API -----------------------------------------------------------------

SCENARIO = "@flour{%s%%g} @salt{=%s%%tsp} @water{%s-%s%%l} @pepper{some} @egg{%s} #pan{2} ~rest{10%%min} @oil{=2-3%%tbsp} @sugar{%s%%zz}\n"


def confirm(run, nat, name, model, obl):
    """replay: scale a parsed recipe that contains every kind of value through the public API and compare
    physical amounts; factor / amounts come from the solver model where it has them"""
    def g(k, d):
        try:
            return float(Fraction(model[k]))
        except Exception:
            return d
    f = g("f", 2.5)
    a = abs(g("x_v_n_reg", 3.0)) or 3.0
    s = abs(g("x_v_s_reg", 1.0)) or 1.0
    e = abs(g("x_v_e_reg", 2.0)) or 2.0
    tried = 0
    for (ff, aa, ss, ee) in ((f, a, s, e), (f, 3.0, 1.0, 2.0), (2.5, 3.0, 1.0, 2.0), (0.5, 300.0, 1.5, 2.5), (3.0, 7.0, 2.0, 4.0)):
        for profile in nat.bins:
            r = nat.call("scale_scenario", repr(ff), repr(aa), repr(ss), repr(ee), profile=profile)
            tried += 1
            bad = r.get("problems") if isinstance(r, dict) else ["native scenario failed: %s" % r]
            if "error" in r:
                bad = ["native scenario failed: %s" % r["error"][-300:]]
            if bad:
                run.traces_validated += tried
                key = "scenario obligation=%s" % re.sub(r"path\[.*?\]", "", name).split(":")[0].strip().replace(" ", "_")
                run.violation(key, "scaling by %r: %s" % (ff, "; ".join(bad[:3])),
                              dict(engine="mir-smt", replay="scale_scenario", args=[repr(ff), repr(aa), repr(ss), repr(ee)], profile=profile))
                obl["status"] = "violated"
                return
    run.traces_validated += tried
    run.inconclusive.append("C08 %s: candidate %s does not reproduce through the public scaling API" % (
        name, {k: str(v) for k, v in list(model.items())[:8]}))


def check(run):
    scr = scratch.Scratch()
    scr.copy_repo()
    missing = scr.inject()
    if missing:
        run.inconclusive.append("source files missing for injection: %s" % missing)
    nat = native.Native(scr)
    nat.build(log=os.path.join(run.logdir, "native-build.log"))
    only = os.environ.get("VERIF_ONLY", "")
    if only in ("", "M"):
        try:
            m_part(run, scr, nat)
        except mir.Unsupported as e:
            run.inconclusive.append("encoder: %s" % e)
    if only in ("", "A"):
        # the scaling kind decided by the analysis pass survives into the stored component, references included
        import analysis
        analysis.run_for(run, scr, nat, "C08")
    if only in ("", "K"):
        kani_group.run_group(run, scr, registry.select("C08", run.tier))
    # validation: the solver's verdict and the real code must agree on a concrete parsed recipe (public API)
    for args in (("2.5", "3.0", "1.0", "2.0"), ("0.5", "300.0", "1.5", "2.5")):
        r = nat.call("scale_scenario", *args)
        run.traces_validated += 1
        if ("error" in r or r.get("problems")) and not run.violations:
            run.violation("validation-vector scale_scenario", "a concrete parsed recipe scales wrongly: %s" % "; ".join(r.get("problems", [str(r)])[:3])[:600],
                          dict(engine="validation-vector", replay="scale_scenario", args=list(args)))
    run.not_covered += [
        "ScalableRecipe::scale's iterator plumbing (map/unzip over the component vectors) is decided only through the per-component functions it calls",
        "the fit step after scaling: amount preservation of fit/convert is C09's claim (composition), fraction fitting is C12's",
    ]


def replay(run, path):
    obj = json.load(open(path))
    scr = scratch.Scratch()
    scr.copy_repo()
    scr.inject()
    if obj.get("engine") == "kani":
        st = kani_group.replay(run, scr, path)
        print("replay:", st)
        if st == "failed":
            print("VIOLATION property=C08 replay=%s" % path)
            return 1
        return 0 if st == "passed" else 2
    nat = native.Native(scr)
    nat.build()
    if obj.get("replay") == "structure":
        import analysis
        return analysis.replay_structure(nat, "C08", path)
    r = nat.call("scale_scenario", *obj["args"])
    print("replay:", r)
    if r.get("problems") or "error" in r:
        print("VIOLATION property=C08 replay=%s" % path)
        return 1
    return 0
