"""Symbolic execution of the analysis pass's component handlers (RecipeCollector::{timer, cookware, ingredient} with
resolve_reference, set_reference / set_referenced_from, value / quantity and the diagnostics they build) from an arbitrary
parser event and an arbitrary valid collector state - Engine M in *lenient* mode:

  * the MIR is dumped WITH debug assertions, so `debug_assert!`s of the crate are part of the code under analysis;
  * whatever the caller leaves abstract is initialised lazily (an abstract value that is matched on becomes an enum of its
    static type with an unconstrained discriminant, a branched-on abstract scalar an unconstrained scalar);
  * calls that nothing models and that take no `&mut` argument are uninterpreted functions of their arguments (text
    trimming, spans, message formatting, converter look-ups: ABSTRACT below);
  * bitflags types are modelled by their documented contract (lib/flagsmodel.py), with the flag values read from the dump.

Shared by C06 (referential consistency), C07 (diagnostics of these handlers), C08 (scaling kind survives analysis) and
C03 (no panic / failed assertion in these handlers)."""
import os, re, time, subprocess
import mir, smt, models, flagsmodel, mcheck
from mir import SV, Agg, Enum, Opaque, OpenAgg, VecVal

ABSTRACT = [r"::span$", r"^Text::<'_>::(text_trimmed|text|text_outer_trimmed)$", r"^Span::", r"(^|::)format$", r"^Converter::",
            r"::unit_info$", r"IterNames", r"::iter_names$", r"::join::<", r"^parse_reference$", r"::compatible_unit$"]


def load_mir_dbg(run, scr, ms):
    """second dump of the core crate, with debug assertions on"""
    t0 = time.time()
    dev = os.environ.get("VERIF_DEV_MIR")
    if dev and os.path.isfile(os.path.join(dev, "mir-dbg.txt")):
        return mir.MirDump(open(os.path.join(dev, "mir-dbg.txt")).read()), mir.TypeDecls(os.path.join(dev, "repo", "src"))
    out = os.path.join(scr.dir, "mir-dbg.txt")
    env = dict(os.environ)
    env["CARGO_NET_OFFLINE"] = "true"
    os.utime(os.path.join(scr.repo, "src", "lib.rs"))
    with open(out, "w") as o, open(out + ".err", "w") as e:
        p = subprocess.run(["cargo", "+nightly", "rustc", "--offline", "--lib", "--target-dir", os.path.join(scr.dir, "mir-target-dbg"), "--",
                            "-Zunpretty=mir", "-C", "debug-assertions=on", "-C", "overflow-checks=on"], cwd=scr.repo, stdout=o, stderr=e, env=env)
    if p.returncode != 0 or os.path.getsize(out) < 1000:
        raise mir.Unsupported("MIR dump (debug assertions on) failed (see %s.err)" % out)
    d = mir.MirDump(open(out).read())
    run.log("MIR dump (debug assertions on): %d functions in %.0fs" % (sum(len(v) for v in d.fns.values()), time.time() - t0))
    return d, mir.TypeDecls(os.path.join(scr.repo, "src"))


class World:
    def __init__(self, dump, decls, prefix, max_paths=60000):
        self.dump, self.decls = dump, decls
        self.sem = smt.RealSem(prefix=prefix)
        mods = dict(models.STD_MODELS)
        mods.update(models.MORE_MODELS)
        mods.update(models.VEC_MODELS)
        mods.update(models.RESULT_MODELS)
        self.it = it = mir.Interp(dump, decls, self.sem, models=mods, max_paths=max_paths)
        it.lenient = True
        it.abstract_fns = list(ABSTRACT)
        it.models.update({r"^<Cow<'_, str> as ToOwned>::to_owned$|^Cow::<'_, str>::into_owned$": models.m_opaque})
        it.models.update(flagsmodel.mk_flag_models(it))
        d = decls
        self.rc, self.lf, self.recf, self.locf, self.sr, self.sd = (d.structs["RecipeCollector"], d.structs["Located"], d.structs["Recipe"],
                                                                    d.structs["Locations"], d.structs["SourceReport"], d.structs["SourceDiag"])
        self.dm_names = [v for v, _ in d.enums["DefineMode"]]
        self.du_names = [v for v, _ in d.enums["DuplicateMode"]]
        self.crn = [v for v, _ in d.enums["ComponentRelation"]]
        self.st_names = [v for v, _ in d.enums["Stage"]]
        self.sev_names = [v for v, _ in d.enums["Severity"]]
        self.flag = {}
        for ty, names in (("Modifiers", ("REF", "NEW", "HIDDEN", "OPT", "RECIPE")), ("Extensions", ("ADVANCED_UNITS",))):
            for n in names:
                v = it._const(mir._AnyFn, "%s::%s" % (ty, n))
                self.flag[n] = flagsmodel.eval_ground(it.flags.bits(v, ty).expr)
        self.inv = []

    # -- constructors
    def fieldless(self, ty, names, expr):
        return Enum(ty, SV("isize", expr), {n: Agg(ty + "::" + n, {}) for n in names}, names)

    def modifiers(self, bits):
        return Agg("Modifiers", {"0": Agg("InternalBitFlags", {"0": SV("u16", bits)})})

    def located(self, inner, what):
        return Agg("Located", {str(self.lf.index("inner")): inner, str(self.lf.index("span")): Opaque("span of " + what)})

    def bit(self, bits_expr, name):
        return "(= (mod (div %s %d) 2) 1)" % (bits_expr, self.flag[name])

    def old_component(self, kind, i, mod_max, refd_entry=True):
        """an earlier component of the collector: arbitrary modifiers / quantity presence / relation, tied by the invariant
        `the relation is a reference => REF modifier`"""
        sem, it = self.sem, self.it
        m = self.decls.structs.lookup(kind, "model")
        bits = sem.sym_int("old%d_mods" % i, "u16", 0, mod_max)
        qt = sem.sym_int("old%d_q" % i, "isize", 0, 1)
        rel_tag = sem.sym_int("old%d_rel" % i, "isize", 0, 1)
        sem.decls.append("(declare-const old%d_in_step Bool)" % i)
        # (the converse only holds in valid results: a dangling `&` keeps the modifier on what stays a definition, with an error)
        self.inv.append("(=> (= old%d_rel %d) %s)" % (i, self.crn.index("Reference"), self.bit("old%d_mods" % i, "REF")))
        refd = VecVal([SV("usize", sem.sym_int("old%d_refd" % i, "usize", 0, 1000))] if refd_entry else [])
        rel = Enum("ComponentRelation", SV("isize", rel_tag), {
            "Definition": Agg("ComponentRelation::Definition", {"0": refd, "1": SV("bool", "old%d_in_step" % i)}),
            "Reference": Agg("ComponentRelation::Reference", {"0": SV("usize", "0")})}, self.crn)
        fields = {str(m.index("name")): Opaque("old name %d" % i), str(m.index("alias")): Opaque("old alias %d" % i),
                  str(m.index("quantity")): models.mk_option(it, SV("isize", qt), Opaque("old quantity %d" % i)),
                  str(m.index("note")): Opaque("old note %d" % i), str(m.index("modifiers")): self.modifiers(bits)}
        if kind == "Ingredient":
            fields[str(m.index("reference"))] = Opaque("old recipe reference %d" % i)
            fields[str(m.index("relation"))] = Agg("IngredientRelation", {"0": rel, "1": Opaque("old reference target %d" % i)})
        else:
            fields[str(m.index("relation"))] = rel
        c = Agg(kind, fields)
        c.rel, c.refd, c.bits, c.qt = rel, refd, "old%d_mods" % i, "old%d_q" % i
        return c

    def collector(self, kind, olds, ext_bits, extra=None):
        it, sem = self.it, self.sem
        lname = {"Cookware": "cookware", "Ingredient": "ingredients", "Timer": "timers"}[kind]
        self.old_locs = []
        for i, o in enumerate(olds):
            if kind == "Timer" or not isinstance(o, Agg):
                self.old_locs.append(Opaque("location of old %d" % i))
                continue
            # what the parser had seen of the earlier component: it has a quantity exactly when the stored component has one
            pk = self.decls.structs.lookup(kind, "parser::model")
            inner = OpenAgg(kind, {str(pk.index("quantity")): models.mk_option(it, SV("isize", o.qt), Opaque("located quantity of old %d" % i)),
                                   str(pk.index("note")): models.mk_option(it, SV("isize", sem.sym_int("old%d_note" % i, "isize", 0, 1)), Opaque("note text of old %d" % i))})
            self.old_locs.append(self.located(inner, "old %d" % i))
        report = Agg("SourceReport", {str(self.sr.index("buf")): VecVal([]), str(self.sr.index("severity")): it._mk_enum("Option", "None", [])})
        po = self.decls.structs["ParseOptions"]
        f = {
            str(self.rc.index("content")): OpenAgg("Recipe", {str(self.recf.index(lname)): VecVal(list(olds))}),
            str(self.rc.index("ctx")): report,
            str(self.rc.index("extensions")): Agg("Extensions", {"0": Agg("InternalBitFlags", {"0": SV("u32", ext_bits)})}),
            str(self.rc.index("define_mode")): self.fieldless("DefineMode", self.dm_names, sem.sym_int("define_mode", "isize", 0, len(self.dm_names) - 1)),
            str(self.rc.index("duplicate_mode")): self.fieldless("DuplicateMode", self.du_names, sem.sym_int("dup_mode", "isize", 0, 1)),
            str(self.rc.index("parse_options")): OpenAgg("ParseOptions", {str(po.index("recipe_ref_check")): it._mk_enum("Option", "None", [])}),
        }
        if kind != "Timer":
            f[str(self.rc.index("locations"))] = OpenAgg("Locations", {str(self.locf.index(lname)): VecVal(list(self.old_locs))})
        return OpenAgg("RecipeCollector", f)

    # -- reading results
    def diags(self, col):
        return col.fields[str(self.rc.index("ctx"))].fields[str(self.sr.index("buf"))].items

    @staticmethod
    def strings_in(v, depth=0):
        """string literals inside an abstract value (message constants survive as arguments of the uninterpreted calls)"""
        out = []
        if isinstance(v, SV) and isinstance(v.expr, str) and v.expr.startswith('"'):
            out.append(v.expr.strip('"'))
        elif isinstance(v, Opaque) and depth < 6:
            if v.what.startswith("constant "):
                out.append(v.what)
            for a in v.args:
                out += World.strings_in(a, depth + 1)
        elif isinstance(v, Agg) and depth < 6:
            for a in v.fields.values():
                out += World.strings_in(a, depth + 1)
        return out

    def diag_info(self, d):
        g = lambda n: d.fields.get(str(self.sd.index(n)))
        sev, st = g("severity"), g("stage")
        labels = g("labels")
        first = None
        if isinstance(labels, VecVal) and labels.items:
            l0 = labels.items[0]
            first = l0.fields.get("0") if isinstance(l0, Agg) else None
        return dict(severity=self.sev_names[int(sev.discr.expr)] if isinstance(sev, Enum) and re.match(r"^\d+$", sev.discr.expr) else None,
                    stage=self.st_names[int(st.discr.expr)] if isinstance(st, Enum) and re.match(r"^\d+$", st.discr.expr) else None,
                    message=" | ".join(self.strings_in(g("message"))), first_label=first, nlabels=len(labels.items) if isinstance(labels, VecVal) else None)


def is_span_of(v, token):
    """`v` is the abstract result of a `span()` call on exactly `token` (seen through identity conversions)"""
    k = 0
    while isinstance(v, Opaque) and k < 4 and len(v.args) == 1 and re.search(r"(as Into<span::Span>>::into|as ToOwned>::to_owned|as Clone>::clone|as From<span::Span>>::from)$", v.what):
        v, k = v.args[0], k + 1
    return isinstance(v, Opaque) and v.what.startswith("call ") and v.what.endswith("::span") and len(v.args) >= 1 and v.args[0] is token


def chunks(lst, n):
    for i in range(0, len(lst), n):
        yield lst[i:i + n]


def conj(xs):
    xs = [x for x in xs if x != "true"]
    if any(x == "false" for x in xs):
        return "false"
    return "true" if not xs else (xs[0] if len(xs) == 1 else "(and %s)" % " ".join(xs))


def disj(xs):
    xs = [x for x in xs if x != "false"]
    if any(x == "true" for x in xs):
        return "true"
    return "false" if not xs else (xs[0] if len(xs) == 1 else "(or %s)" % " ".join(xs))


class Obligations:
    """per-path (pc, violated-condition) pairs grouped by claim; discharged as disjunctions of `chunk` paths per query"""

    def __init__(self, chunk=48):
        self.by = {}
        self.order = []
        self.chunk = chunk

    def add(self, claim, pc, bad):
        """the claim is violated on this path iff `pc /\\ bad` is satisfiable"""
        if claim not in self.by:
            self.by[claim] = []
            self.order.append(claim)
        if bad == "false":
            self.by[claim].append(None)
        else:
            self.by[claim].append(conj(list(pc) + [bad]))

    def queries(self, inv):
        for claim in self.order:
            live = [x for x in self.by[claim] if x is not None and x != "false"]
            n = len(self.by[claim])
            if not live:
                yield ("%s [%d paths, all closed syntactically]" % (claim, n), list(inv) + ["false"])
                continue
            parts = list(chunks(live, self.chunk))
            for k, part in enumerate(parts):
                yield ("%s [%d paths%s]" % (claim, n, "" if len(parts) == 1 else ", part %d/%d" % (k + 1, len(parts))), list(inv) + [disj(part)])


# ----------------------------------------------------------------------------------------------------------------------
# component with references: cookware / ingredient

def run_component(w, kind, scn):
    """scn: dict(mod_max=int, ext=concrete extension bits or None, quantity=True/False/None, note=True/False/None, olds=1|2)"""
    it, sem, d = w.it, w.sem, w.decls
    pk = d.structs.lookup(kind, "parser::model")
    mk = d.structs.lookup(kind, "model")
    fname = {"Cookware": "cookware", "Ingredient": "ingredient"}[kind]
    f = w.dump.find_impl_method(fname, r"_1: &mut RecipeCollector<'_, '_>, _2: Located<parser::model::%s<'_>>" % kind)
    it.type_subst = {"C": "model::%s<ScalableValue>" % kind}
    if scn.get("new_mods") is not None:
        sem.decls.append("(declare-const new_mods Int)")
        sem.decls.append("(assert (= new_mods %d))" % scn["new_mods"])
        new_bits = str(scn["new_mods"])
    else:
        new_bits = sem.sym_int("new_mods", "u16", 0, scn.get("mod_max", 31))
    tag = lambda name, v: "1" if v is True else ("0" if v is False else sem.sym_int(name, "isize", 0, 1))
    q_tag, note_tag = tag("new_q", scn.get("quantity")), tag("new_note", scn.get("note"))
    # the quantity as the parser hands it over: value kind, scaling lock and unit presence symbolic
    vnames = [v for v, _ in d.enums.lookup("Value", "quantity")]
    w.vkind = sem.sym_int("new_vkind", "isize", 0, len(vnames) - 1)
    w.vtext = "(= new_vkind %d)" % vnames.index("Text")
    w.new_value = Enum("Value", SV("isize", w.vkind), {n: Agg("Value::" + n, {"0": Opaque("payload of the written %s" % n)} if n != "Range" else
                                                            {"0": Opaque("written range start"), "1": Opaque("written range end")}) for n in vnames}, vnames)
    w.lock = sem.sym_int("new_lock", "isize", 0, 1)
    qv = d.structs["QuantityValue"]
    w.new_qval = Agg("QuantityValue", {str(qv.index("value")): w.located(w.new_value, "the written value"),
                                       str(qv.index("scaling_lock")): models.mk_option(it, SV("isize", w.lock), Opaque("span of the lock"))})
    if kind == "Ingredient":
        pq = d.structs.lookup("Quantity", "parser::model")
        w.unit_tag = sem.sym_int("new_unit", "isize", 0, 1)
        inner = OpenAgg("Quantity", {str(pq.index("value")): w.new_qval,
                                     str(pq.index("unit")): models.mk_option(it, SV("isize", w.unit_tag), Opaque("unit text of the new component"))})
        w.new_q_loc = w.located(inner, "the new component's quantity")
    else:
        w.new_q_loc = w.located(w.new_qval, "the new component's quantity")
    w.new_note = Opaque("note text of the new component")
    w.new_name = Opaque("name text of the new component")
    w.new_mod_loc = w.located(w.modifiers(new_bits), "the new component's modifiers")
    fields = {str(pk.index("modifiers")): w.new_mod_loc,
              str(pk.index("name")): w.new_name,
              str(pk.index("alias")): models.mk_option(it, SV("isize", "1"), Opaque("alias text")),
              str(pk.index("quantity")): models.mk_option(it, SV("isize", q_tag), w.new_q_loc),
              str(pk.index("note")): models.mk_option(it, SV("isize", note_tag), w.new_note)}
    if kind == "Ingredient":
        fields[str(pk.index("intermediate_data"))] = it._mk_enum("Option", "None", [])
    ev = w.located(Agg(kind, fields), "the new component")
    olds = [w.old_component(kind, i, scn.get("mod_max", 31), scn.get("refd", True)) for i in range(scn.get("olds", 1))]
    ext = scn.get("ext")
    if ext == "advanced-units":
        ext = w.flag["ADVANCED_UNITS"]
    ext_bits = str(ext) if ext is not None else sem.sym_int("ext_bits", "u32", 0, 2 ** 14 - 1)
    col = w.collector(kind, olds, ext_bits)
    t0 = time.time()
    outs = it.run(f, [col, ev])
    w.elapsed = time.time() - t0
    return dict(kind=kind, outs=outs, olds=olds, ev=ev, new_bits="new_mods", q_tag=q_tag, note_tag=note_tag, mk=mk)


def component_obligations(w, r, ob, tag):
    """the claims, path by path"""
    it, sem = w.it, w.sem
    kind, olds, mk = r["kind"], r["olds"], r["mk"]
    lname = {"Cookware": "cookware", "Ingredient": "ingredients"}[kind]
    n_old = len(olds)
    REFV, DEFV = w.crn.index("Reference"), w.crn.index("Definition")
    stats = dict(ret=0, panic=0, ref_paths=0, diag_paths=0)
    for o in r["outs"]:
        pc = mcheck.pc_assert(o.pc)
        if o.kind == "panic":
            stats["panic"] += 1
            msg = str(o.msg)
            site = re.sub(r"\s+", " ", msg)[:70]
            ob.add("%s never panics / fails an assertion (debug ones included): %s" % (tag, site), pc, "true")
            continue
        if o.kind != "return":
            continue
        stats["ret"] += 1
        col2 = it.deref(o.env["_1"], o.env)
        lst = col2.fields[str(w.rc.index("content"))].fields[str(w.recf.index(lname))]
        locs = col2.fields[str(w.rc.index("locations"))].fields[str(w.locf.index(lname))]
        # P1: pushed exactly once, at the end; locations kept in step; returned index
        shape_ok = isinstance(lst, VecVal) and len(lst.items) == n_old + 1 and isinstance(locs, VecVal) and len(locs.items) == n_old + 1 \
            and all(locs.items[i] is w.old_locs[i] for i in range(n_old))
        ret_ok = isinstance(o.value, SV) and "(= %s %d)" % (o.value.expr, n_old)
        ob.add("%s: the new component is appended once (content and locations in step) and its index returned" % tag, pc,
               "true" if not shape_ok or not ret_ok else "(not %s)" % ret_ok)
        if not shape_ok:
            continue
        new = lst.items[-1]
        nrel = new.fields[str(mk.index("relation"))]
        if kind == "Ingredient":
            nrel = nrel.fields["0"] if isinstance(nrel, Agg) else nrel
        nbits = it.flags.bits(new.fields[str(mk.index("modifiers"))], "Modifiers").expr
        if not isinstance(nrel, Enum):
            ob.add("%s: the new component has a relation" % tag, pc, "true")
            continue
        is_ref = "(= %s %d)" % (nrel.discr.expr, REFV)
        target = nrel.variants["Reference"].fields["0"].expr if "Reference" in nrel.variants else None
        # P2 / P3 per old component
        conds_backlink, conds_def, conds_name, conds_inherit = [], [], [], []
        for i, old in enumerate(olds):
            cur = lst.items[i]
            crel = cur.fields[str(mk.index("relation"))]
            if kind == "Ingredient":
                crel = crel.fields["0"] if isinstance(crel, Agg) else crel
            points_here = "(and %s (= %s %d))" % (is_ref, target, i) if target is not None else "false"
            # the definition's back links: unchanged, or grown by exactly the new index when the new component points here
            same_all = cur is old
            grown = False
            if isinstance(crel, Enum) and "Definition" in crel.variants:
                rf = crel.variants["Definition"].fields["0"]
                grown = isinstance(rf, VecVal) and len(rf.items) == len(old.refd.items) + 1 and all(a is b for a, b in zip(rf.items, old.refd.items)) \
                    and isinstance(rf.items[-1], SV) and rf.items[-1].expr == str(n_old)
                same_rf = isinstance(rf, VecVal) and len(rf.items) == len(old.refd.items) and all(a is b for a, b in zip(rf.items, old.refd.items))
            else:
                same_rf = same_all
            others_same = all(cur.fields[k] is old.fields[k] for k in cur.fields if k != str(mk.index("relation"))) if isinstance(cur, Agg) else False
            conds_backlink.append("(ite %s %s %s)" % (points_here, "true" if (grown and others_same) else "false", "true" if ((same_all or same_rf) and others_same) else "false"))
            conds_def.append("(=> %s (= old%d_rel %d))" % (points_here, i, DEFV))
            # the names compared equal (case-insensitively): the abstract comparison of UniCase(new name) with UniCase(old name)
            atom = name_eq_atom(w, new.fields[str(mk.index("name"))], old.fields[str(mk.index("name"))])
            conds_name.append("(=> %s %s)" % (points_here, atom or "false"))
        if target is not None:
            conds_def.append("(=> %s (and (>= %s 0) (< %s %d)))" % (is_ref, target, target, n_old))
        ob.add("%s: a component is marked as a reference of definition k exactly when definition k's back links gain its index; "
               "every other stored component is untouched" % tag, pc, "(not %s)" % conj(conds_backlink))
        ob.add("%s: a reference points at an earlier component that is a definition, not at another reference" % tag, pc, "(not %s)" % conj(conds_def))
        ob.add("%s: a reference and its definition have the same name (compared ignoring case)" % tag, pc, "(not %s)" % conj(conds_name))
        # P4: a reference carries the reference modifier (the state invariant is kept); the modifier without a reference only
        #     together with an error (so never in a valid result)
        dl = w.diags(col2)
        infos = [w.diag_info(x) for x in dl]
        has_error = any(i["severity"] == "Error" for i in infos)
        ob.add("%s: a stored reference carries the reference modifier, and the modifier on a non-reference comes with an error "
               "(in a valid result: reference <=> reference modifier)" % tag, pc,
               "(not (and (=> %s %s) (=> (and %s (not %s)) %s)))" % (is_ref, w.bit(nbits, "REF"), w.bit(nbits, "REF"), is_ref, "true" if has_error else "false"))
        stats["ref_paths"] += 1
        # P5: the stored quantity is the written one; an ingredient's is scalable (Linear) exactly when it is neither text nor locked,
        #     whatever the component refers to; a cookware quantity is never scalable
        sq = new.fields[str(mk.index("quantity"))]
        if isinstance(sq, Enum) and "Some" in sq.variants:
            inner = sq.variants["Some"].fields["0"]
            sval = inner.fields.get("0") if (kind == "Ingredient" and isinstance(inner, Agg)) else inner
            svn = [v for v, _ in w.decls.enums["ScalableValue"]]
            if isinstance(sval, Enum) and sval.ty == "ScalableValue":
                payload_ok = all(var.fields.get("0") is w.new_value for var in sval.variants.values())
                want_linear = "(and (not %s) (= new_lock 0))" % w.vtext if kind == "Ingredient" else "false"
                kind_ok = "(= (= %s %d) %s)" % (sval.discr.expr, svn.index("Linear"), want_linear)
                unit_ok = "true"
                if kind == "Ingredient":
                    u = inner.fields.get("1")
                    unit_ok = "(= %s new_unit)" % u.discr.expr if isinstance(u, Enum) else "false"
                ob.add("%s: the stored quantity holds the written value and unit; it is scalable exactly for an ingredient quantity that is "
                       "neither text nor locked with `=` - references included" % tag, pc,
                       "(and (= %s 1) (not (and (= %s 1) %s %s %s)))" % (r["q_tag"], sq.discr.expr, "true" if payload_ok else "false", kind_ok, unit_ok))
            else:
                ob.add("%s: the stored quantity holds a scalable value" % tag, pc, "(= %s 1)" % r["q_tag"])
        else:
            ob.add("%s: a written quantity is stored" % tag, pc, "(= %s 1)" % r["q_tag"] if not (isinstance(sq, Enum) and sq.discr.expr == "0") else "(= %s 1)" % r["q_tag"])
        # P6: diagnostics built here
        bad_meta = [i for i in infos if i["stage"] != "Analysis" or i["severity"] is None]
        ob.add("%s: every diagnostic pushed here is an analysis-stage diagnostic" % tag, pc, "true" if bad_meta else "false")
        conflict = [i for i in infos if "Conflicting component reference quantities" in i["message"]]
        note_err = [i for i in infos if "Note not allowed in" in i["message"] or "note" in i["message"].lower() and "reference" in i["message"].lower()]
        if n_old == 1:
            old = olds[0]
            expect_conflict = "(and %s (= %s 1) (= %s 1) (not old0_in_step))" % (is_ref, old.qt, r["q_tag"])
            has = "true" if conflict else "false"
            ob.add("%s: the 'conflicting reference quantities' error is reported exactly for a quantified reference to a quantified "
                   "definition that was not defined in a step" % tag, pc, "(not (= %s %s))" % (expect_conflict, has))
            if conflict:
                stats["diag_paths"] += 1
                c0 = conflict[0]
                lab_ok = c0["severity"] == "Error" and len(conflict) == 1 and is_span_of(c0["first_label"], w.new_q_loc)
                ob.add("%s: that error is an Error whose primary label sits on the quantity of the offending reference" % tag, pc,
                       "false" if lab_ok else "true")
            expect_note = "(and %s (= %s 1))" % (is_ref, r["note_tag"])
            ob.add("%s: a note on a reference is reported as an error (and only then)" % tag, pc,
                   "(not (= %s %s))" % (expect_note, "true" if note_err else "false"))
    return stats


def name_eq_atom(w, new_name, old_name):
    """the boolean the encoding introduced for `UniCase::new(new.name()) == UniCase::new(other.name())`"""
    it = w.it

    def unicase_of(tok):
        for c0, a0, r0 in it.__dict__.get("_uf_calls", []):
            if "UniCase" in c0 and c0.endswith("::new") and len(a0) == 1 and (a0[0] is tok or derived_from(a0[0], tok)):
                return r0
        return None
    a, b = unicase_of(new_name), unicase_of(old_name)
    if a is None or b is None:
        return None
    for x, y, bvar in it.__dict__.get("_abstract_eq", []):
        if (x is a and y is b) or (x is b and y is a):
            return bvar
    return None


def derived_from(v, tok, depth=0):
    """v is tok seen through `Deref`/`as_str`-like uninterpreted calls"""
    if v is tok:
        return True
    if isinstance(v, Opaque) and depth < 4 and v.what.startswith("call ") and len(v.args) == 1 and re.search(r"(Deref>::deref|::as_str|::as_ref|Borrow<str>>::borrow)$", v.what):
        return derived_from(v.args[0], tok, depth + 1)
    return False


# ----------------------------------------------------------------------------------------------------------------------
# timers

def run_timer(w):
    it, sem, d = w.it, w.sem, w.decls
    f = w.dump.find_impl_method("timer", r"_1: &mut RecipeCollector<'_, '_>, _2: Located<parser::model::Timer<'_>>")
    tf = d.structs.lookup("Timer", "parser::model")
    name_tag = sem.sym_int("name_some", "isize", 0, 1)
    q_tag = sem.sym_int("q_some", "isize", 0, 1)
    w.t_q = Opaque("located quantity of the timer")
    ptimer = Agg("Timer", {str(tf.index("name")): models.mk_option(it, SV("isize", name_tag), Opaque("timer name text")),
                           str(tf.index("quantity")): models.mk_option(it, SV("isize", q_tag), w.t_q)})
    ev = w.located(ptimer, "the timer")
    olds = [Opaque("an earlier timer")]
    col = w.collector("Timer", olds, sem.sym_int("ext_bits", "u32", 0, 2 ** 14 - 1))
    outs = it.run(f, [col, ev])
    return dict(outs=outs, olds=olds)


def timer_obligations(w, r, ob):
    it = w.it
    mt = w.decls.structs.lookup("Timer", "model")
    for o in r["outs"]:
        pc = mcheck.pc_assert(o.pc)
        if o.kind == "panic":
            ob.add("timer(): never panics / fails an assertion (debug ones included): %s" % re.sub(r"\s+", " ", str(o.msg))[:70], pc, "true")
            continue
        if o.kind != "return":
            continue
        col2 = it.deref(o.env["_1"], o.env)
        lst = col2.fields[str(w.rc.index("content"))].fields[str(w.recf.index("timers"))]
        ok = isinstance(lst, VecVal) and len(lst.items) == 2 and lst.items[0] is r["olds"][0] and isinstance(o.value, SV)
        ob.add("timer(): the timer is appended once and its index returned", pc, "true" if not ok else "(not (= %s 1))" % o.value.expr)
        if not ok:
            continue
        t = lst.items[-1]
        nm, q = t.fields[str(mt.index("name"))], t.fields[str(mt.index("quantity"))]
        if not (isinstance(nm, Enum) and isinstance(q, Enum)):
            ob.add("timer(): name and quantity are options", pc, "true")
            continue
        ob.add("timer(): the stored timer has a name exactly when the event had one, and a quantity exactly when the event had one "
               "(so a timer the parser accepted - name or quantity - never ends up with neither)", pc,
               "(not (and (= %s name_some) (= %s q_some)))" % (nm.discr.expr, q.discr.expr))
        infos = [w.diag_info(x) for x in w.diags(col2)]
        lock = [i for i in infos if "scaling lock" in i["message"]]
        rest = [i for i in infos if "scaling lock" not in i["message"]]
        ob.add("timer(): every diagnostic pushed here is an analysis-stage diagnostic; apart from the scaling-lock warning they are errors", pc,
               "true" if ([i for i in infos if i["stage"] != "Analysis"] or [i for i in rest if i["severity"] != "Error"] or [i for i in lock if i["severity"] != "Warning"]) else "false")
        adv = "(= (mod (div ext_bits %d) 2) 1)" % w.flag["ADVANCED_UNITS"]
        ob.add("timer(): without the advanced-units extension (or without a quantity) the timer raises no error", pc,
               "false" if not rest else "(not (and %s (= q_some 1)))" % adv)


# ----------------------------------------------------------------------------------------------------------------------
# step items

def run_in_step(w):
    """in_step on a component event: the handlers themselves (decided above) are uninterpreted here, only the item pushed matters"""
    it, sem, d = w.it, w.sem, w.decls
    f = w.dump.find_impl_method("in_step", r"_1: &mut RecipeCollector<'_, '_>, _2: parser::Event<'_>, _3: &mut Vec<model::Item>")
    it.abstract_fns += [r"^RecipeCollector::<'_, '_>::(ingredient|cookware|timer)$"]
    ev_names = [v for v, _ in d.enums["Event"]]
    comp = [ev_names.index(x) for x in ("Ingredient", "Cookware", "Timer")]
    sem.decls.append("(declare-const ev_kind Int)")
    payload = {n: Opaque("located %s of the event" % n.lower()) for n in ("Ingredient", "Cookware", "Timer")}
    old_item = Opaque("an earlier item")
    col = w.collector("Timer", [Opaque("x")], "0")
    outs = []
    for n in payload:          # one run per component kind (the text arm, with its inline-quantity scan, is outside this claim)
        k = ev_names.index(n)
        ev = Enum("Event", SV("isize", str(k)), {n: Agg("Event::" + n, {"0": payload[n]})}, ev_names)
        for o in it.run(f, [col, ev, VecVal([old_item])]):
            o.pc = ["(= ev_kind %d)" % k] + list(o.pc)
            outs.append(o)
    return dict(outs=outs, old_item=old_item, ev_names=ev_names, payload=payload)


def in_step_obligations(w, r, ob):
    it = w.it
    inames = [v for v, _ in w.decls.enums.lookup("Item", "model")]
    for o in r["outs"]:
        pc = mcheck.pc_assert(o.pc)
        if o.kind == "panic":
            ob.add("in_step(): never panics on a component event: %s" % re.sub(r"\s+", " ", str(o.msg))[:60], pc, "true")
            continue
        if o.kind != "return":
            continue
        items = it.deref(o.env["_3"], o.env)
        ok = isinstance(items, VecVal) and len(items.items) == 2 and items.items[0] is r["old_item"] and isinstance(items.items[1], Enum) \
            and re.match(r"^\d+$", items.items[1].discr.expr)
        cond = "false"
        if ok:
            new = items.items[1]
            nm = inames[int(new.discr.expr)]
            idx = new.variants[nm].fields.get("0")
            # the index stored is what the handler of that very kind returned for that very event payload
            handler = {"Ingredient": "ingredient", "Cookware": "cookware", "Timer": "timer"}.get(nm)
            from_handler = handler is not None and isinstance(idx, Opaque) and idx.what.endswith("::" + handler) and idx.args and idx.args[-1] is r["payload"][nm]
            cond = "(= ev_kind %d)" % r["ev_names"].index(nm) if from_handler else "false"
        ob.add("in_step(): a component event appends exactly one item of that kind whose index is the one its handler returned "
               "(so step items address existing components, in document order)", pc, "(not %s)" % cond)


# ----------------------------------------------------------------------------------------------------------------------
# driver shared by the property checks

def analysis_part(run, scr, nat, prop):
    """component handlers of the analysis pass from arbitrary events and collector states (props/py)"""
    ms = mcheck.MSession(run, scr)
    dump, decls = load_mir_dbg(run, scr, ms)
    run.functions += ["analysis::RecipeCollector::{timer, cookware, ingredient, resolve_reference, quantity, value} (MIR with debug assertions)",
                      "RefComponent impls for Cookware / Ingredient (set_reference, set_referenced_from, ...), SourceReport::{error, warn, push}, "
                      "SourceDiag constructors (MIR)"]
    scenarios = [
        ("cookware", "Cookware", dict(mod_max=31, ext=None, olds=1)),
        ("ingredient, no quantity / note", "Ingredient", dict(mod_max=31, ext=0, quantity=False, note=False, olds=1)),
        ("ingredient with a quantity", "Ingredient", dict(mod_max=3, ext=0, quantity=True, note=False, olds=1)),
        ("ingredient with a note", "Ingredient", dict(mod_max=3, ext=0, quantity=False, note=True, olds=1)),
    ]
    if run.tier == "thorough":
        scenarios += [("cookware, two earlier items", "Cookware", dict(mod_max=3, ext=0, quantity=False, note=False, olds=2)),
                      ("ingredient, quantity and note symbolic", "Ingredient", dict(mod_max=3, ext=0, olds=1)),
                      ]
    batches = []
    abstracted = set()
    for k, (sname, kind, scn) in enumerate(scenarios):
        w = World(dump, decls, "a%d" % k, max_paths=120000)
        ob = Obligations()
        t0 = time.time()
        r = run_component(w, kind, scn)
        st = component_obligations(w, r, ob, "%s()" % sname)
        run.log("analysis scenario %s: %d paths (%d returns) in %.0fs" % (sname, len(r["outs"]), st["ret"], time.time() - t0))
        if st["ret"] == 0 or st["ref_paths"] == 0:
            run.inconclusive.append("analysis scenario %s: no returning path" % sname)
        batches.append(("an-%d" % k, w, ob))
        abstracted |= set(getattr(w.it, "abstracted_calls", ()))
    w = World(dump, decls, "t", max_paths=20000)
    ob = Obligations()
    timer_obligations(w, run_timer(w), ob)
    batches.append(("an-timer", w, ob))
    abstracted |= set(getattr(w.it, "abstracted_calls", ()))
    w = World(dump, decls, "s", max_paths=20000)
    ob = Obligations()
    in_step_obligations(w, run_in_step(w), ob)
    batches.append(("an-instep", w, ob))

    def on_sat(name):
        def cb(model, ob_, item):
            bad = judge_structure(nat)
            if bad:
                run.violation("kernel=analysis component handlers: %s" % bad[0][:160], "; ".join(bad[:2])[:700],
                              dict(engine="mir-smt", replay="structure"))
                ob_["status"] = "violated"
            else:
                run.inconclusive.append("%s: candidate does not reproduce through the public parser" % name[:110])
        return cb
    for tagname, w, ob in batches:
        b = mcheck.Batch(ms, tagname, list(w.sem.decls), timeout_s=90 if run.tier == "quick" else 300)
        for name, asserts in ob.queries(w.inv):
            if not re.search(CLAIMS[prop], name):
                continue
            b.add(name, asserts, "unsat", (), on_sat(name))
        b.run()
    run.assumptions += [
        "analysis handlers: the parser event and the collector state are built directly; state invariant assumed for earlier components "
        "and shown to be kept for the new one: the reference modifier is set exactly on references",
        "abstracted (uninterpreted) in these encodings: " + ", ".join(sorted(abstracted))[:1500],
        "bitflags operations follow the documented contract of the bitflags crate (lib/flagsmodel.py); flag values are read from the dump",
        "no recipe-reference checker configured (ParseOptions::recipe_ref_check = None); no intermediate-preparation reference on the event; "
        "ingredient(): the advanced-units extension is off (its incompatible-units warnings exceed the path budget: > 300 000 paths)",
    ]
    run.bounds.append("analysis handlers: one earlier component of the same kind (two in the thorough tier), empty back-link list plus one symbolic entry")
    ms.close()


STRUCT_CASES = [
    # (extensions, text): recipes whose analysis exercises references, back links, notes, quantities and timers
    ("all", "@salt{1%g} and @&salt{2%g} then @&salt{}\n"),
    ("all", "#pan{} ... #&pan{} and #&Pan{}\n"),
    ("all", ">> [mode]: components\n@flour{1%kg}\n#bowl{1}\n>> [mode]: steps\nSift @flour{200%g} into #bowl{2}.\n"),
    ("all", ">> [duplicate]: ref\n@salt{} @salt{} @+salt{} @salt(fine){}\n#frying pan|pan{} and #pan{}\n"),
    ("all", "@salt{} then @&?salt{} and #pan{} then #&-pan{}\n"),
    ("all", "@flour{=500%g} then @&flour{10%g}; @pepper{a bit} then @&pepper{2%g}\n"),
    ("all", "~{10%min} ~eggs{3%minutes}\n"),
    ("no-advanced-units", "~{a few%minutes} and ~{some%min} and ~eggs{3%minutes}\n"),
    ("none", "~{a few%minutes} and ~rest{} and ~{2%hours}\n"),
    ("all", "@&ghost{} and #&ghost{}\n"),
]


def judge_structure(nat, profile="debug"):
    bad = []
    for ext, text in STRUCT_CASES:
        r = nat.call("structure", ext, text, profile=profile)
        if not isinstance(r, dict) or "error" in r or r.get("panic"):
            bad.append("%r: %s" % (text, str(r)[:200]))
            continue
        bad += ["%r: %s" % (text, p) for p in r.get("problems", [])]
    return bad




# which of the claims each property's check discharges (all of them explore the same paths)
CLAIMS = {
    "C06": r"appended once|marked as a reference|points at an earlier|same name|reference modifier|has a name exactly when|appends exactly one item",
    "C07": r"diagnostic|error is reported|primary label|note on a reference|raises no error",
    "C08": r"stored quantity|written quantity is stored",
    "C03": r"never panics",
}


def run_for(run, scr, nat, prop):
    try:
        analysis_part(run, scr, nat, prop)
    except mir.Unsupported as e:
        run.inconclusive.append("encoder (analysis handlers): %s" % e)
    bad = judge_structure(nat)
    run.traces_validated += len(STRUCT_CASES)
    if bad and not run.violations:
        run.violation("validation-vector structure: %s" % bad[0][:160], "; ".join(bad[:2])[:700], dict(engine="validation-vector", replay="structure"))


def replay_structure(nat, prop, path):
    bad = judge_structure(nat)
    print("replay:", bad or "every structure case as documented")
    if bad:
        print("VIOLATION property=%s replay=%s" % (prop, path))
    return 1 if bad else 0
