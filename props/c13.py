"""C13 - standard metadata values are interpreted as documented (durations, servings, locale kernels)."""
import scratch, kani_group, registry


def check(run):
    scr = scratch.Scratch()
    scr.copy_repo()
    missing = scr.inject()
    if missing:
        run.inconclusive.append("source files missing for injection: %s" % missing)
    run.assumptions += [
        "strings are the stated fixed layouts; digits / bytes inside them are fully symbolic",
        "Kani 0.68 / CBMC 6.11 model of rustc MIR (debug profile, overflow checks on), unwinding assertions on",
    ]
    run.not_covered += [
        "tags, author/source name-URL split (String/Cow/Vec building: not affordable, see DESIGN 5/C13)",
        "dynamic units through a non-empty converter (HashMap lookups)",
        "the parse-time warning <-> accessor link (needs the analysis pass)",
    ]
    kani_group.run_group(run, scr, registry.select("C13", run.tier))


def replay(run, path):
    scr = scratch.Scratch()
    scr.copy_repo()
    scr.inject()
    st = kani_group.replay(run, scr, path)
    print("replay: %s" % st)
    if st == "failed":
        print("VIOLATION property=C13 replay=%s" % path)
        return 1
    return 0 if st == "passed" else 2
