"""C13 - standard metadata values are interpreted as documented (durations, servings, locale kernels)."""
import os, json, re
from fractions import Fraction
import scratch, kani_group, registry, native, mcheck, mir, smt, models, strmodel
from mir import SV, Agg, Enum, Opaque, OpenAgg, VecVal

DOC = {"s": Fraction(1, 60), "sec": Fraction(1, 60), "secs": Fraction(1, 60), "second": Fraction(1, 60), "seconds": Fraction(1, 60),
       "m": 1, "min": 1, "minute": 1, "minutes": 1, "h": 60, "hour": 60, "hours": 60, "d": 1440, "day": 1440, "days": 1440}
U32MAX = 2 ** 32 - 1


def m_part(run, scr, nat):
    """parse_time (whitespace-separated number-unit pairs with the hard-coded units, float fallback) on abstract strings"""
    ms = mcheck.MSession(run, scr)
    dump = ms.load_mir()
    decls = ms.decls
    run.functions += ["metadata::parse_time (MIR)", "metadata::parse_time_with_units (MIR, loop unrolled by the word count)",
                      "metadata::hard_coded_time_units (MIR)"]
    f_parse_time = dump.find(r"^parse_time$")
    items = []
    INVALID_UNIT = "\"0#\""      # a string that is no documented unit (stands for a unit word with a numeric prefix)
    for nwords in ((1, 2, 3) if run.tier == "quick" else (1, 2, 3, 4)):
        sem = smt.RealSem(prefix="k%d" % nwords)
        mods = dict(models.STD_MODELS)
        mods.update(models.MORE_MODELS)
        mods.update(models.VEC_MODELS)
        it = mir.Interp(dump, decls, sem, models=mods)
        it.models.update(strmodel.mk_models(it, sem))
        it.merge_calls = [r"^hard_coded_time_units$"]
        words = [strmodel.Word(sem, "w%d" % i) for i in range(nwords)]
        for w in words:
            # numtext empty <=> word is only a unit; a word is not empty; a parsable number part is not empty
            sem.decls.append("(declare-const %s_numempty Bool)" % w.name)
            sem.decls.append("(assert (=> %s (not %s_numempty)))" % (w.num_ok, w.name))
            sem.decls.append("(assert (not (and %s_numempty (= %s \"\"))))" % (w.name, w.unit))
            sem.decls.append("(assert (not (str.contains %s \" \")))" % w.unit)
            w.as_unit = "(ite %s_numempty %s %s)" % (w.name, w.unit, INVALID_UNIT)
        # a word taken whole as the unit of the previous number
        def unit_of_whole(sv, _orig=None):
            return sv.word.as_unit
        orig_eq = it.models[r"^<str as PartialEq>::eq$"]

        def m_str_eq(it_, args, callee):
            def e(x):
                if isinstance(x, SV):
                    return x.expr
                if isinstance(x, strmodel.StrVal) and x.kind == "word":
                    return x.word.as_unit
                if isinstance(x, strmodel.StrVal) and x.kind == "unitpart":
                    return x.word.unit
                raise mir.Unsupported("string comparison on %r" % (x,))
            return SV("bool", "(= %s %s)" % (e(args[0]), e(args[1])))
        it.models[r"^<str as PartialEq>::eq$"] = m_str_eq
        whole = strmodel.Whole(sem, words)
        # the compact HhMm recogniser is decided separately (Kani); here it declines
        it.models[r"^parse_common_time_format$"] = lambda it_, a, c: it._mk_enum("Option", "None", [])
        cf = decls.structs.lookup("Converter", "convert")
        conv = OpenAgg("Converter", {str(cf.index("all_units")): VecVal([])})
        outs = it.run(f_parse_time, [strmodel.StrVal("whole", whole=whole), conv])
        # ---- documented semantics as SMT terms (backward recursion over the word index)
        def doc(u):
            return "(or %s)" % " ".join("(= %s \"%s\")" % (u, k) for k in DOC)

        def contrib(num, u):
            # num * factor(u), with the multiplication pushed into the branches so that every branch is linear
            e = "0.0"
            for k, f in DOC.items():
                e = "(ite (= %s \"%s\") (* %s %s) %s)" % (u, k, smt.rat(Fraction(f)), num, e)
            return e
        valid = {nwords: "true", nwords + 1: "false"}
        total = {nwords: "0.0", nwords + 1: "0.0"}
        for i in range(nwords - 1, -1, -1):
            w = words[i]
            joined_ok = "(and (not (= %s \"\")) %s %s)" % (w.unit, w.num_ok, doc(w.unit))
            v_j = "(and %s %s)" % (joined_ok, valid[i + 1])
            t_j = "(+ %s %s)" % (contrib(w.num, w.unit), total[i + 1])
            if i + 1 < nwords:
                nx = words[i + 1]
                sep_ok = "(and (= %s \"\") %s %s_numempty %s)" % (w.unit, w.num_ok, nx.name, doc(nx.unit))
                v_s = "(and %s %s)" % (sep_ok, valid[i + 2])
                t_s = "(+ %s %s)" % (contrib(w.num, nx.unit), total[i + 2])
            else:
                v_s, t_s = "false", "0.0"
            valid[i] = sem.define("Bool", "(or %s %s)" % (v_j, v_s), "valid")
            total[i] = sem.define("Real", "(ite (= %s \"\") %s %s)" % (w.unit, t_s, t_j), "total")
        V0, T0 = valid[0], total[0]
        # the float total differs from the exact one by rounding: the range test gets a margin of 2 minutes on either side
        inrange = lambda x: "(< %s %s)" % (x, smt.rat(Fraction(U32MAX) + 2))
        well_inside = lambda x: "(<= %s %s)" % (x, smt.rat(Fraction(U32MAX) - 2))
        close = lambda t, x: "(<= %s (+ 0.5 (* %s (+ %s 1.0))))" % (
            "(ite (>= (- (to_real %s) %s) 0.0) (- (to_real %s) %s) (- %s (to_real %s)))" % (t, x, t, x, x, t), smt.rat(Fraction(1, 10 ** 9)), x)
        fetch = [x for w in words for x in (w.num, w.unit, w.num_ok, "%s_numempty" % w.name)] + [whole.float_ok, whole.float]
        D = list(sem.decls)
        n_ok = 0
        for o in outs:
            p = ">".join(o.trace[-3:])
            pcs = mcheck.pc_assert(o.pc)
            if o.kind == "panic":
                items.append((nwords, D, fetch, words, whole, "parse_time on %d word(s) never panics: %s" % (nwords, str(o.msg)[:40]), pcs, "unsat"))
                continue
            if o.kind != "return":
                continue
            res = o.value
            if "Ok" in res.variants:
                n_ok += 1
                t = res.variants["Ok"].fields["0"].expr
                good = "(or (and %s %s %s) (and %s (>= %s 0.0) %s %s))" % (V0, inrange(T0), close(t, T0), whole.float_ok, whole.float,
                                                                             inrange(whole.float), close(t, whole.float))
                items.append((nwords, D, fetch, words, whole,
                              "%d word(s) path[%s]: a returned number is the rounded documented total (or the plain non-negative number of minutes) and fits u32 - never a wrapped, saturated or otherwise wrong number" % (nwords, p),
                              pcs + ["(not %s)" % good], "unsat"))
                # the plain-number reading involves no float arithmetic, so "rounded" is exact there: half minutes go up
                items.append((nwords, D, fetch, words, whole,
                              "%d word(s) path[%s]: a plain number of minutes is rounded to the nearest whole minute, halves up (exact)" % (nwords, p),
                              pcs + [whole.float_ok, "(not %s)" % V0, "(>= %s 0.0)" % whole.float, inrange(whole.float),
                                     "(not (= %s (to_int (+ %s 0.5))))" % (t, whole.float)], "unsat"))
            else:
                items.append((nwords, D, fetch, words, whole,
                              "%d word(s) path[%s]: a documented pair sequence whose total fits is never refused" % (nwords, p),
                              pcs + [V0, well_inside(T0), "(>= %s 0.0)" % T0], "unsat"))
        if n_ok == 0:
            run.inconclusive.append("parse_time on %d word(s): no successful path found" % nwords)
    # ---- dynamic_time_units: with a converter that has units, a number comes back only through a unit of TIME found under
    #      min / minute / minutes / m, and it is what Converter::convert (C09's claim) makes of (value, unit) in that unit
    try:
        dyn_items = dynamic_units_part(run, ms, nat)
    except mir.Unsupported as e:
        run.inconclusive.append("encoder (dynamic_time_units): %s" % e)
        dyn_items = None
    try:
        tags_part(run, ms, nat)
    except mir.Unsupported as e:
        run.inconclusive.append("encoder (value_as_tags): %s" % e)
    run.assumptions += [
        "strings are abstracted to 1..4 whitespace-separated words, each `<digits/dots><rest>`; what the code can observe of a word "
        "(number part parses or not and its value in [0,1e12], the rest as an SMT string, emptiness of either part) is symbolic",
        "empty converter (hard-coded units); the compact HhMm recogniser is cut to `None` here and decided by the Kani harnesses",
        "real+delta float model; totals compared with a 0.5 rounding margin",
    ]
    run.bounds.append("M: parse_time_with_units' loop unrolled by the word count (1..=3 words; 4 in the thorough tier)")

    def on_sat(nwords, words, whole, name):
        def cb(model, ob, item):
            confirm_time(run, nat, words, whole, model, name, ob)
        return cb
    # one batch per word count (each has its own declarations)
    by_n = {}
    for (n, D, fetch, words, whole, name, asserts, expect) in items:
        by_n.setdefault(n, (D, [])).__getitem__(1).append((fetch, words, whole, name, asserts, expect))
    for n, (D, lst) in sorted(by_n.items()):
        batch = mcheck.Batch(ms, "c13-%d" % n, D, timeout_s=120 if run.tier == "quick" else 600)
        for (fetch, words, whole, name, asserts, expect) in lst:
            batch.add(name, asserts, expect, fetch, on_sat(n, words, whole, name))
        batch.run()
    if items:
        run.samples.append({"engine": "mir-smt", "obligation": items[0][5]})
    ms.close()


def fmt_num(x):
    fr = Fraction(x)
    if fr.denominator == 1:
        return str(fr.numerator)
    return ("%.6f" % float(fr)).rstrip("0")


def reference_minutes(s):
    """documented reading of a duration string (number-unit pairs, or a plain number of minutes); None = refuse"""
    m = re.fullmatch(r"(?:(\d+)h)?(?:(\d+)m)?", s)
    if s and m and (m.group(1) or m.group(2)):
        tot = int(m.group(1) or 0) * 60 + int(m.group(2) or 0)
        return tot if tot <= U32MAX else None
    parts = s.split()
    tot = Fraction(0)
    i = 0
    ok = bool(parts)
    while ok and i < len(parts):
        mm = re.fullmatch(r"([0-9.]*)(.*)", parts[i])
        num, unit = mm.group(1), mm.group(2)
        if unit == "":
            if i + 1 >= len(parts):
                ok = False
                break
            unit = parts[i + 1]
            i += 1
        try:
            val = Fraction(float(num))
        except Exception:
            ok = False
            break
        if unit not in DOC:
            ok = False
            break
        tot += val * DOC[unit]
        i += 1
    if ok:
        r = int(tot + Fraction(1, 2))
        return r if r <= U32MAX else None
    try:
        g = float(s)
    except Exception:
        return None
    if g != g or g < 0 or g in (float("inf"), float("-inf")):
        return None
    r = int(Fraction(g) + Fraction(1, 2))
    return r if r <= U32MAX else None


def dynamic_units_part(run, ms, nat):
    dump, decls = ms.dump, ms.decls
    sem = smt.RealSem(prefix="dyn")
    mods = dict(models.STD_MODELS)
    mods.update(models.MORE_MODELS)
    mods.update(models.VEC_MODELS)
    it = mir.Interp(dump, decls, sem, models=mods)
    f_dyn = dump.find(r"^dynamic_time_units$")
    run.functions.append("metadata::dynamic_time_units (MIR)")
    uf = decls.structs.lookup("Unit", "convert")
    pqn = [v for v, _ in decls.enums["PhysicalQuantity"]]
    cvn = [v for v, _ in decls.enums["ConvertValue"]]
    names = ["min", "minute", "minutes", "m"]
    found, units = {}, {}
    for i, n in enumerate(names):
        found[n] = sem.sym_int("dyn_found%d" % i, "isize", 0, 1)
        units[n] = OpenAgg("Unit", {str(uf.index("physical_quantity")): SV("isize", sem.sym_int("dyn_pq%d" % i, "isize", 0, len(pqn) - 1))})
    looked = []

    def m_find_unit(it_, a, callee):
        key = a[1]
        txt = key.expr.strip('"') if isinstance(key, SV) else None
        if txt not in found:
            raise mir.Unsupported("dynamic_time_units looks up %r" % (key,))
        looked.append(txt)
        return models.mk_option(it_, SV("isize", found[txt]), units[txt])
    calls = []
    conv_ok = sem.sym_int("dyn_conv_ok", "isize", 0, 1)
    conv_out = sem.fresh("Real", "dyn_conv_out")

    def m_convert(it_, a, callee):
        calls.append(a)
        it_.emit(("convert", a))
        val = Enum("ConvertValue", SV("isize", str(cvn.index("Number"))), {"Number": Agg("ConvertValue::Number", {"0": SV("f64", conv_out)})}, cvn)
        ok = it_._mk_enum("Result", "Ok", [Agg("tuple", {"0": val, "1": Opaque("unit")})])
        return [(["(= dyn_conv_ok 1)"], ok, "return", None),
                (["(= dyn_conv_ok 0)"], it_._mk_enum("Result", "Err", [Opaque("ConvertError")]), "return", None)]

    def m_pq_ne(it_, a, callee):
        x, y = it_.deref(a[0], it_.cur_env), it_.deref(a[1], it_.cur_env)
        ex = lambda v: v.expr if isinstance(v, SV) else v.discr.expr
        return SV("bool", "(not (= %s %s))" % (ex(x), ex(y)))
    saved = dict(it.models)
    it.models.update(models.MORE_MODELS)
    it.models.update(models.RESULT_MODELS)
    it.models.update({
        r"^Converter::find_unit$": m_find_unit,
        r"^Converter::convert$": m_convert,
        r"^<convert::PhysicalQuantity as PartialEq>::(ne|eq)$": m_pq_ne,
        r"^<std::sync::Arc<convert::Unit> as Deref>::deref$": models.m_identity,
        r"^<ConvertTo<'_> as From<&std::sync::Arc<convert::Unit>>>::from$": lambda it_, a, cal: Opaque("ConvertTo::Unit", [it_.deref(a[0], it_.cur_env) if not isinstance(a[0], (Agg, Opaque)) else a[0]]),
    })
    value = SV("f64", sem.fresh("Real", "dyn_value"))
    unit = Opaque("the unit word")
    items = []
    time_idx = pqn.index("Time")
    # the unit the chain min -> minute -> minutes -> m settles on
    chosen_time = "false"
    for i in range(len(names) - 1, -1, -1):
        chosen_time = "(ite (= dyn_found%d 1) (= dyn_pq%d %d) %s)" % (i, i, time_idx, chosen_time)
    n_ok = 0
    try:
        outs = it.run(f_dyn, [value, unit, Opaque("converter")])
        for o in outs:
            p = ">".join(o.trace[-3:])
            pcs = mcheck.pc_assert(o.pc)
            if o.kind == "panic":
                # `unreachable!()` after convert: Converter::convert returns the kind of value it was given (C09)
                items.append(("dynamic_time_units never panics: %s" % str(o.msg)[:40], pcs, "unsat"))
                continue
            if o.kind != "return":
                continue
            if "Ok" in o.value.variants:
                n_ok += 1
                r = o.value.variants["Ok"].fields["0"]
                faithful = "false"
                mine = [e[1] for e in o.events if isinstance(e, tuple) and e[0] == "convert"]
                if len(mine) == 1:
                    a = mine[0]
                    cv, cu, to = a[1], a[2], a[3]
                    v_in = cv.variants["Number"].fields["0"] if isinstance(cv, Enum) and "Number" in cv.variants else None
                    key_in = cu.variants["Key"].fields["0"] if isinstance(cu, Enum) and "Key" in cu.variants else None
                    tgt = to.args[0] if isinstance(to, Opaque) and to.what == "ConvertTo::Unit" else None
                    tgt_is_chosen = "false"
                    for i in range(len(names) - 1, -1, -1):
                        tgt_is_chosen = "(ite (= dyn_found%d 1) %s %s)" % (i, "true" if tgt is units[names[i]] else "false", tgt_is_chosen)
                    if v_in is not None and key_in is unit and isinstance(r, SV):
                        faithful = "(and (= %s %s) (= %s %s) %s)" % (v_in.expr, value.expr, r.expr, conv_out, tgt_is_chosen)
                items.append(("dynamic_time_units Ok path[%s]: a number is returned only when the unit found under min/minute/minutes/m is a unit of "
                              "time, and it is Converter::convert(value, unit) into that unit" % p,
                              pcs + ["(not (and %s (= dyn_conv_ok 1) %s))" % (chosen_time, faithful)], "unsat"))
                items.append(("reachable: dynamic_time_units Ok path[%s]" % p, pcs, "sat"))
            else:
                items.append(("dynamic_time_units Err path[%s]: a convertible value in a time unit is never refused" % p,
                              pcs + [chosen_time, "(= dyn_conv_ok 1)"], "unsat"))
    finally:
        it.models.clear()
        it.models.update(saved)
    if n_ok == 0:
        run.inconclusive.append("dynamic_time_units: no successful path found")
    if looked[:4] != names and sorted(set(looked)) != sorted(names):
        run.inconclusive.append("dynamic_time_units: unexpected lookup chain %r" % looked[:6])

    def on_sat(name):
        def cb(model, ob, item):
            confirm_dynamic(run, nat, name, ob)
        return cb
    batch = mcheck.Batch(ms, "c13-dyn", list(sem.decls), timeout_s=60)
    for name, asserts, expect in items:
        batch.add(name, asserts, expect, (), on_sat(name))
    batch.run()
    return items


def tags_part(run, ms, nat):
    """value_as_tags on an abstract comma string / sequence of k entries: the result is the entries (trimmed, for the string form)
    that are non-empty and not seen before, in order"""
    dump, decls = ms.dump, ms.decls
    f = dump.find(r"^value_as_tags$")
    run.functions.append("metadata::value_as_tags (MIR; strings as identities)")
    batches = []
    for form, k in (("string", 3), ("sequence", 3)) if run.tier == "quick" else (("string", 3), ("sequence", 3), ("string", 4), ("sequence", 4)):
        sem = smt.RealSem(prefix="tg%s%d" % (form[0], k))
        mods = dict(models.STD_MODELS)
        mods.update(models.MORE_MODELS)
        mods.update(models.VEC_MODELS)
        mods.update(models.RESULT_MODELS)
        it = mir.Interp(dump, decls, sem, models=mods)
        it.lenient = True
        it.abstract_fns = [r"Option::<&serde_yaml::Value>::map::<MetaType", r"^MetadataError::"]      # error payloads, built eagerly
        # an entry as the dedup loop sees it: identity `id` (0 = the empty string)
        ids = [sem.sym_int("%s_id%d" % (sem.prefix, j), "isize", 0, 9) for j in range(k)]
        pieces = [Opaque("piece %d" % j) for j in range(k)]
        entries = {}      # token the loop sees -> index

        def entry_of(tok):
            for t, j in entries.items():
                if t is tok:
                    return j
            return None
        val = Opaque("the yaml value")
        seq_items = [Opaque("yaml item %d" % j) for j in range(k)]
        seq_tok = [Opaque("text of yaml item %d" % j) for j in range(k)]
        store = {}

        def m_trim(it_, a, c_):
            j = [i for i, p_ in enumerate(pieces) if p_ is a[0]]
            if not j:
                raise mir.Unsupported("trim of %r" % (a[0],))
            t = store.setdefault(("trim", j[0]), Opaque("trimmed piece %d" % j[0]))
            store[id(t)] = (t, j[0])
            return t

        def idx_of(tok):
            tok = tok if isinstance(tok, Opaque) else it.deref(tok, it.cur_env)
            k_ = store.get(id(tok))
            return k_[1] if k_ else None

        def m_is_empty(it_, a, c_):
            j = idx_of(a[0])
            if j is None:
                raise mir.Unsupported("is_empty of %r" % (a[0],))
            return SV("bool", "(= %s 0)" % ids[j])

        def m_contains(it_, a, c_):
            v = a[0] if isinstance(a[0], VecVal) else it_.deref(a[0], it_.cur_env)
            j = idx_of(a[1])
            js = [idx_of(x) for x in v.items]
            if j is None or None in js:
                raise mir.Unsupported("contains on unknown tokens")
            return SV("bool", "(or false %s)" % " ".join("(= %s %s)" % (ids[i], ids[j]) for i in js))

        def m_as_str_like(it_, a, c_):
            j = [i for i, p_ in enumerate(seq_items) if p_ is a[0]]
            if not j:
                raise mir.Unsupported("as_str_like of %r" % (a[0],))
            store[id(seq_tok[j[0]])] = (seq_tok[j[0]], j[0])
            return models.mk_option(it_, SV("isize", "1"), seq_tok[j[0]])

        def m_collect_option(it_, a, c_):
            out = []
            for pc_, acc in models._apply_chain(it_, a[0]):
                vals = []
                for r in acc:
                    if not (isinstance(r, Enum) and r.discr.expr == "1"):
                        raise mir.Unsupported("collect::<Option<Vec>> over a possibly-None item")
                    vals.append(r.variants["Some"].fields["0"])
                out.append((pc_, it_._mk_enum("Option", "Some", [VecVal(vals)]), "return", None))
            return out
        mine = {
            r"^serde_yaml::Value::as_str$": lambda it_, a, c_: it_._mk_enum("Option", "Some", [Opaque("the comma string")]) if form == "string" else it_._mk_enum("Option", "None", []),
            r"^serde_yaml::Value::as_sequence$": lambda it_, a, c_: it_._mk_enum("Option", "Some", [VecVal(seq_items)]),
            r"^core::str::<impl str>::split::<char>$": lambda it_, a, c_: models.IterVal(list(pieces)),
            r"^<std::str::Split<'_, char> as Iterator>::map::<": models.m_iter_map,
            r"^<std::slice::Iter<'_, serde_yaml::Value> as Iterator>::map::<": models.m_iter_map,
            r"^<std::iter::Map<std::str::Split<'_, char>, .*> as Iterator>::collect::<Vec<": models.m_iter_collect,
            r"^<std::iter::Map<std::slice::Iter<'_, serde_yaml::Value>, .*> as Iterator>::collect::<std::option::Option<Vec<": m_collect_option,
            r"^core::str::<impl str>::trim$": m_trim,
            r"^<&str as Into<Cow<'_, str>>>::into$": models.m_identity,
            r"^<Cow<'_, str> as Deref>::deref$": models.m_identity,
            r"^core::str::<impl str>::is_empty$": m_is_empty,
            r"^core::slice::<impl \[Cow<'_, str>\]>::contains$": m_contains,
            r"as_str_like$": m_as_str_like,
            r"^Vec::<Cow<'_, str>>::with_capacity$": lambda it_, a, c_: VecVal([]),
            r"^<Vec<Cow<'_, str>> as IntoIterator>::into_iter$": models.m_vec_into_iter_owned,
            r"^<std::vec::IntoIter<Cow<'_, str>> as Iterator>::next$": models.m_iter_next,
        }
        mine.update({k_: v_ for k_, v_ in it.models.items() if k_ not in mine})      # the specific models take precedence
        it.models = mine
        outs = it.run(f, [val])
        items = []
        n_ok = 0
        for o in outs:
            p = ">".join(o.trace[-2:])
            pcs = mcheck.pc_assert(o.pc)
            if o.kind == "panic":
                items.append(("value_as_tags (%s of %d) never panics: %s" % (form, k, str(o.msg)[:40]), pcs, "unsat"))
                continue
            if o.kind != "return" or "Ok" not in o.value.variants:
                items.append(("value_as_tags (%s of %d) path[%s]: a string / a sequence of strings is never refused" % (form, k, p), pcs, "unsat"))
                continue
            n_ok += 1
            res = o.value.variants["Ok"].fields["0"]
            got = [idx_of(x) for x in res.items] if isinstance(res, VecVal) else None
            if got is None or None in got or got != sorted(got) or len(set(got)) != len(got):
                items.append(("value_as_tags (%s of %d) path[%s]: the result lists entries of the input, in order" % (form, k, p), pcs, "unsat"))
                continue
            conds = []
            for j in range(k):
                keep = "(and (not (= %s 0)) %s)" % (ids[j], " ".join("(not (= %s %s))" % (ids[i], ids[j]) for i in range(j)) or "true")
                conds.append("(= %s %s)" % (keep, "true" if j in got else "false"))
            if form == "string":
                conds.append("true" if all(store.get(("trim", j)) is res.items[n] for n, j in enumerate(got)) else "false")
            items.append(("value_as_tags (%s of %d) path[%s]: the tags are exactly the %sentries that are non-empty and did not occur before, in order" % (
                form, k, p, "trimmed " if form == "string" else ""), pcs + ["(not (and %s))" % " ".join(conds)], "unsat"))
        if n_ok == 0:
            run.inconclusive.append("value_as_tags (%s of %d): no successful path" % (form, k))
        batches.append((sem, items, "%s%d" % (form[0], k)))

    def on_sat(name):
        def cb(model, ob, item):
            bad = tags_vectors(run, nat)
            if bad:
                run.violation("kernel=metadata::value_as_tags", bad, dict(engine="mir-smt", replay="tags"))
                ob["status"] = "violated"
            else:
                run.inconclusive.append("C13 %s: candidate does not reproduce through the public accessor" % name[:80])
        return cb
    for sem, items, tg in batches:
        b = mcheck.Batch(ms, "c13-tags-%s" % tg, list(sem.decls), timeout_s=60)
        for name, asserts, expect in items:
            b.add(name, asserts, expect, (), on_sat(name))
        b.run()


TAGS_EXPECT = [
    ("string", " a, b ,a,, c ,b", ["a", "b", "c"]),
    ("string", "one", ["one"]),
    ("string", " , ,", []),
    ("sequence", ["x", "y", "x", "", "z"], ["x", "y", "z"]),
]


def tags_vectors(run, nat):
    for form, src, want in TAGS_EXPECT:
        r = nat.call("tags", json.dumps(src))
        run.traces_validated += 1
        if not isinstance(r, dict) or "error" in r or r.get("panic") or r.get("tags") != want:
            return "tags of %r read as %r, documented: %r" % (src, r.get("tags") if isinstance(r, dict) else r, want)
    return None


RENAMED_EXPECT = [
    # (converter variant, string, documented minutes)
    ("metre", "2 km", None), ("metre", "1 km 500 m", None), ("metre", "2 hr", None), ("metre", "90", 90),
    ("minute", "2 hr", 120), ("minute", "90 sg", 2), ("minute", "2 km", None), ("minute", "1 hr 30 m", 90), ("minute", "3 m", 3),
]


def renamed_vectors(run, nat):
    """parse_time with renamed-units converters through the public accessor; returns the first disagreement"""
    tried = 0
    for variant, s, want in RENAMED_EXPECT:
        for profile in nat.bins:
            r = nat.call("time_renamed", variant, s, profile=profile)
            tried += 1
            got = r.get("minutes") if isinstance(r, dict) else None
            if not isinstance(r, dict) or r.get("panic") or "error" in r:
                run.traces_validated += tried
                return "as_minutes(%r) with the %s-`m` converter: %r" % (s, variant, r), (variant, s, profile)
            if got != want:
                run.traces_validated += tried
                return "as_minutes(%r) with renamed units (`m` = %s) = %r, documented reading: %r" % (s, variant, got, want), (variant, s, profile)
    run.traces_validated += tried
    return None, None


def confirm_dynamic(run, nat, name, ob):
    bad, key = renamed_vectors(run, nat)
    if bad:
        run.violation("kernel=metadata::dynamic_time_units", bad, dict(engine="mir-smt", replay="time_renamed", variant=key[0], string=key[1], profile=key[2]))
        ob["status"] = "violated"
    else:
        run.inconclusive.append("C13 %s: candidate does not reproduce with the renamed-units converters" % name[:80])


def is_plain_number(s):
    """no unit arithmetic behind the reading: the rounded value is exact, no tolerance applies"""
    try:
        float(s)
        return True
    except ValueError:
        return False


def confirm_time(run, nat, words, whole, model, name, ob):
    """build concrete strings from the model and compare the public accessor with the documented reading"""
    cands = []
    try:
        parts = []
        for w in words:
            numok = model.get(w.num_ok)
            unit = model.get(w.unit, "")
            unit = "" if unit is None else str(unit)
            num = fmt_num(model.get(w.num, 0)) if numok else ""
            parts.append(num + unit)
        cands.append(" ".join(p for p in parts if p))
    except Exception:
        pass
    if model.get(whole.float_ok):
        g = Fraction(model.get(whole.float, 0))
        cands.append(fmt_num(g) if g >= 0 else "-" + fmt_num(-g))
    # solver models sit on boundaries: a few neighbours / canonical large values
    cands += ["71582789h", "5000000000 m", "9999999 d", "-5", "1e20", "4294967296", "3 d 2 h", "90 s", "1 hour 30 min", "5000000000m"]
    tried = 0
    for s in cands:
        for profile in nat.bins:
            r = nat.call("time", s, profile=profile)
            tried += 1
            want = reference_minutes(s)
            got = r.get("minutes") if isinstance(r, dict) else None
            if r.get("panic") or "error" in r:
                bad = "as_minutes(%r) panicked" % s
            elif got != want and not (got is not None and want is not None and abs(got - want) <= 1 and not is_plain_number(s)):
                bad = "as_minutes(%r) = %r, documented reading: %r" % (s, got, want)
            else:
                continue
            run.traces_validated += tried
            kind = "wrong-number" if got is not None else "refused"
            run.violation("kernel=metadata::parse_time %s" % kind, bad, dict(engine="mir-smt", replay="time", string=s, profile=profile))
            ob["status"] = "violated"
            return
    run.traces_validated += tried
    run.inconclusive.append("C13 %s: candidate strings %s do not reproduce" % (name[:60], cands[:2]))


def check(run):
    scr = scratch.Scratch()
    scr.copy_repo()
    missing = scr.inject()
    if missing:
        run.inconclusive.append("source files missing for injection: %s" % missing)
    run.assumptions += [
        "strings are the stated fixed layouts; digits / bytes inside them are fully symbolic",
        "Kani 0.68 / CBMC 6.11 model of rustc MIR (debug profile, overflow checks on), unwinding assertions on",
    ]
    run.not_covered += [
        "author/source name-URL split (str::split_once / strip_suffix / chars on symbolic text: not affordable, see DESIGN 5/C13); "
        "tags: the split at commas and the trimming themselves are abstract (the loop over the entries is decided)",
        "dynamic units: Converter::find_unit / Converter::convert are abstract in the encoding (their own behaviour is C09 / C16 territory); "
        "the link to real converters is the renamed-units validation vectors only",
        "the parse-time warning <-> accessor link (needs the analysis pass)",
    ]
    only = os.environ.get("VERIF_ONLY", "")
    if only in ("", "M"):
        nat = native.Native(scr)
        nat.build(log=os.path.join(run.logdir, "native-build.log"))
        try:
            m_part(run, scr, nat)
        except mir.Unsupported as e:
            run.inconclusive.append("encoder: %s" % e)
        # validation: documented reading vs the real accessor on concrete strings
        for s_ in ("30 sec", "150 s", "2 min 30 sec", "1 h 30 s", "0.5", "12.5", "90 s", "1 hour 30 min", "1hour 30min", "3 d 2 h", "45 secs", "25 secs", "   0  hours 90min 59 sec ", "90", "1 kilometer", "1hour30min"):
            r = nat.call("time", s_)
            run.traces_validated += 1
            if r.get("minutes") != reference_minutes(s_.strip()) and not run.violations:
                run.violation("validation-vector time %s" % s_.strip().replace(" ", "_"),
                              "as_minutes(%r) = %r but the documented reading gives %r" % (s_, r, reference_minutes(s_.strip())),
                              dict(engine="validation-vector", replay="time", string=s_.strip()))
        bad = tags_vectors(run, nat)
        if bad and not run.violations:
            run.violation("validation-vector tags", bad, dict(engine="validation-vector", replay="tags"))
        bad, key = renamed_vectors(run, nat)
        if bad and not run.violations:
            run.violation("validation-vector time_renamed", bad, dict(engine="validation-vector", replay="time_renamed", variant=key[0], string=key[1], profile=key[2]))
    if only in ("", "K"):
        kani_group.run_group(run, scr, registry.select("C13", run.tier))


def replay(run, path):
    obj = json.load(open(path))
    scr = scratch.Scratch()
    scr.copy_repo()
    scr.inject()
    if obj.get("replay") == "time":
        nat = native.Native(scr)
        nat.build()
        r = nat.call("time", obj["string"])
        want = reference_minutes(obj["string"])
        print("replay: as_minutes(%r) = %r, documented %r" % (obj["string"], r, want))
        if r.get("panic") or r.get("minutes") != want:
            print("VIOLATION property=C13 replay=%s" % path)
            return 1
        return 0
    if obj.get("replay") == "tags":
        nat = native.Native(scr)
        nat.build()
        bad = tags_vectors(run, nat)
        print("replay: %s" % (bad or "all tag readings as documented"))
        if bad:
            print("VIOLATION property=C13 replay=%s" % path)
            return 1
        return 0
    if obj.get("replay") == "time_renamed":
        nat = native.Native(scr)
        nat.build()
        bad, key = renamed_vectors(run, nat)
        print("replay: %s" % (bad or "all renamed-units readings as documented"))
        if bad:
            print("VIOLATION property=C13 replay=%s" % path)
            return 1
        return 0
    st = kani_group.replay(run, scr, path)
    print("replay: %s" % st)
    if st == "failed":
        print("VIOLATION property=C13 replay=%s" % path)
        return 1
    return 0 if st == "passed" else 2
