"""C10 - grouping conserves quantities (summation kernels).

Engine M on the MIR of <Value as TryAdd>::try_add and GroupedValue::add (one inductive step from every valid
group shape up to three entries).  The unit-conversion leg of ScaledQuantity::try_add is C09's kernel.
"""
import os, json
from fractions import Fraction
import scratch, native, mcheck, mir, smt, models, kani_group, registry
import c08
from mir import SV, Agg, Enum, Opaque, OpenAgg, VecVal

U = Fraction(1, 2 ** 53)
PANIC_ONLY = False      # set by the C03 check: keep only the no-panic obligations


def build(run, scr):
    c = c08.build(run, scr)
    run.functions[:] = []
    F = c.dump.find_impl_method
    c.f_try_add = F("try_add", r"\(_1: &quantity::Value, _2: &quantity::Value\) -> Result<quantity::Value, TextValueError>")
    c.f_gv_add = F("add", r"\(_1: &mut GroupedValue, _2: &quantity::Value\)")
    c.f_gv_merge = F("merge", r"\(_1: &mut GroupedValue, _2: &GroupedValue\)")
    c.it.inline.append((r"^<quantity::Value as TryAdd>::try_add$", c.f_try_add))
    c.it.inline.append((r"^GroupedValue::add$", c.f_gv_add))
    c.it.models.update(models.VEC_MODELS)
    run.functions += ["<quantity::Value as TryAdd>::try_add (MIR)", "quantity::GroupedValue::add (MIR)", "quantity::Number::value (MIR)"]
    return c


def number_values(c, i):
    """[(pc, term)] for Number::value on symbolic number i"""
    if not hasattr(i, "vals"):
        i.vals = []
        for o in c.it.run(c.f_value, [i]):
            if o.kind == "return":
                i.vals.append((o.pc, o.value.expr))
    return i.vals


def number_exact(c, n):
    """(exact real value, magnitude bound) of a Number value produced by the code (Regular or Fraction, concrete variant)"""
    if "Regular" in n.variants and len(n.variants) == 1:
        e = n.variants["Regular"].fields["0"].expr
        return e, c08.absx(e)
    if "Fraction" in n.variants and len(n.variants) == 1:
        ff = dict(c.decls.enums["Number"])["Fraction"]
        f = n.variants["Fraction"].fields
        w, nu, de, er = (f[str(ff.index(k))].expr for k in ("whole", "num", "den", "err"))
        ex = "(+ (+ (to_real %s) %s) (/ (to_real %s) (to_real %s)))" % (w, er, nu, de)
        mg = "(+ (+ (to_real %s) %s) (/ (to_real %s) (to_real %s)))" % (w, c08.absx(er), nu, de)
        return ex, mg
    return None, None


def sum_spec(c, x, y, out):
    """out (a Number) denotes value(x) + value(y): either literally Regular(fl(value(x)+value(y))) (a term identity,
    decided without arithmetic) or any Number whose exact value is within 8u of the exact sum"""
    nn = [v for v, _ in c.decls.enums["Number"]]
    if not isinstance(out, Enum):
        return "false"
    alts = []
    if "Regular" in out.variants:
        o = out.variants["Regular"].fields["0"].expr
        parts = ["(= %s %d)" % (out.discr.expr, nn.index("Regular"))]
        for pcx, vx in number_values(c, x):
            for pcy, vy in number_values(c, y):
                parts.append("(=> %s (= %s %s))" % (c08.conj(pcx + pcy), o, c.sem.float_arith("Add", vx, vy, "f64")))
        alts.append(c08.conj(parts))
    ex, mg = number_exact(c, out)
    if ex is not None:
        alts.append("(<= %s (* %s (+ %s %s %s)))" % (c08.absx("(- %s (+ %s %s))" % (ex, x.exact, y.exact)), smt.rat(8 * U), x.mag, y.mag, mg))
    if not alts:
        return "false"
    return alts[0] if len(alts) == 1 else "(or %s)" % " ".join(alts)


def add_spec(c, A, B, out):
    """`out` is the end-wise sum of the non-text values A and B"""
    I = A.idx
    rf = A.rf
    s_, e_ = str(rf.index("start")), str(rf.index("end"))
    cases = []
    if isinstance(out, Enum) and "Number" in out.variants:
        cases.append("(and (= %s %d) (= %s %d) (= %s %d) %s)" % (
            A.discr.expr, I["Number"], B.discr.expr, I["Number"], out.discr.expr, I["Number"],
            sum_spec(c, A.n, B.n, out.variants["Number"].fields["0"])))
    if isinstance(out, Enum) and "Range" in out.variants:
        ro = out.variants["Range"].fields
        cases.append("(and (= %s %d) (= %s %d) (= %s %d) %s %s)" % (
            A.discr.expr, I["Number"], B.discr.expr, I["Range"], out.discr.expr, I["Range"],
            sum_spec(c, A.n, B.s, ro[s_]), sum_spec(c, A.n, B.e, ro[e_])))
        cases.append("(and (= %s %d) (= %s %d) (= %s %d) %s %s)" % (
            A.discr.expr, I["Range"], B.discr.expr, I["Number"], out.discr.expr, I["Range"],
            sum_spec(c, A.s, B.n, ro[s_]), sum_spec(c, A.e, B.n, ro[e_])))
        cases.append("(and (= %s %d) (= %s %d) (= %s %d) %s %s)" % (
            A.discr.expr, I["Range"], B.discr.expr, I["Range"], out.discr.expr, I["Range"],
            sum_spec(c, A.s, B.s, ro[s_]), sum_spec(c, A.e, B.e, ro[e_])))
    if not cases:
        return "false"
    return "(or %s)" % " ".join(cases) if len(cases) > 1 else cases[0]


def m_part(run, scr, nat):
    c = build(run, scr)
    sem, it, decls = c.sem, c.it, c.decls
    A = c08.sym_value(c, "a")
    B = c08.sym_value(c, "b")
    items = []

    def ob(name, pc, post, expect="unsat"):
        if PANIC_ONLY and "panic" not in name:
            return
        items.append((name, mcheck.pc_assert(pc), post, expect))
    a_text = "(= %s %d)" % (A.discr.expr, A.idx["Text"])
    b_text = "(= %s %d)" % (B.discr.expr, B.idx["Text"])
    for i in (A.n, A.s, A.e, B.n, B.s, B.e):
        number_values(c, i)

    # ---- try_add
    n_ok = 0
    for o in it.run(c.f_try_add, [A, B]):
        p = ">".join(o.trace[-3:])
        if o.kind == "panic":
            ob("try_add never panics: %s" % o.msg, o.pc, "true")
            continue
        if o.kind != "return":
            continue
        res = o.value
        if "Ok" in res.variants:
            n_ok += 1
            out = res.variants["Ok"].fields["0"]
            ob("try_add Ok path[%s]: neither operand is text and the result is the end-wise float sum" % p, o.pc,
               "(not (and (not %s) (not %s) %s))" % (a_text, b_text, add_spec(c, A, B, out)))
            ob("reachable: try_add Ok path[%s]" % p, o.pc, "true", "info")
        else:
            err = res.variants["Err"].fields["0"]
            carried = err.fields["0"] if isinstance(err, Agg) else None
            keeps = "(or (and %s %s) (and %s %s))" % (a_text, c08.same(carried, A) if carried is not None else "false",
                                                    b_text, c08.same(carried, B) if carried is not None else "false")
            ob("try_add Err path[%s]: only when an operand is text, and the error carries that text value" % p, o.pc, "(not %s)" % keeps)
    if n_ok < 4:
        run.inconclusive.append("try_add: expected the four numeric kind pairs as success paths, found %d" % n_ok)
    if PANIC_ONLY:
        items[:] = [i for i in items if "panic" in i[0]]

    # ---- Quantity::compatible_unit: the contract ScaledQuantity::try_add relies on (rhs is converted INTO the returned unit and
    #      the total keeps the left unit): a common unit is the LEFT operand's unit, only for two known units of one physical quantity
    it.models.update(models.RESULT_MODELS)
    qf = decls.structs.lookup("Quantity", "quantity")
    f_compat = c.dump.find_impl_method("compatible_unit", r"\(_1: &quantity::Quantity<V>, _2: &quantity::Quantity<V>, _3: &Converter\)")
    run.functions.append("quantity::Quantity::compatible_unit (MIR)")
    uf = decls.structs.lookup("Unit", "convert")
    pqn0 = [v for v, _ in decls.enums["PhysicalQuantity"]]
    cu_l = sem.sym_int("cu_lunit", "isize", 0, 1)
    cu_r = sem.sym_int("cu_runit", "isize", 0, 1)
    cu_lk = sem.sym_int("cu_lknown", "isize", 0, 1)
    cu_rk = sem.sym_int("cu_rknown", "isize", 0, 1)
    cu_lpq = sem.sym_int("cu_lpq", "isize", 0, len(pqn0) - 1)
    cu_rpq = sem.sym_int("cu_rpq", "isize", 0, len(pqn0) - 1)
    sem.decls.append("(declare-const cu_text_eq Bool)")
    ltxt, rtxt = Opaque("left unit text"), Opaque("right unit text")
    lunit_info = OpenAgg("Unit", {str(uf.index("physical_quantity")): SV("isize", cu_lpq)})
    runit_info = OpenAgg("Unit", {str(uf.index("physical_quantity")): SV("isize", cu_rpq)})
    lunit_info.tag, runit_info.tag = "L", "R"

    def m_find_unit(it_, a, callee):
        key = it_.deref(a[1], it_.cur_env) if not isinstance(a[1], Opaque) else a[1]
        if key is ltxt:
            return models.mk_option(it_, SV("isize", cu_lk), lunit_info)
        if key is rtxt:
            return models.mk_option(it_, SV("isize", cu_rk), runit_info)
        raise mir.Unsupported("find_unit on an unexpected key")

    def m_text_ne(it_, a, callee):
        return SV("bool", "(not cu_text_eq)")

    def m_pq_ne(it_, a, callee):
        x, y = it_.deref(a[0], it_.cur_env), it_.deref(a[1], it_.cur_env)
        return SV("bool", "(not (= %s %s))" % (x.expr, y.expr))
    cu_models = {
        r"^Converter::find_unit$": m_find_unit,
        r"^<&std::string::String as PartialEq>::ne$": m_text_ne,
        r"^<std::string::String as PartialEq>::ne$": m_text_ne,
        r"^<convert::PhysicalQuantity as PartialEq>::ne$": m_pq_ne,
        r"^<std::sync::Arc<convert::Unit> as Deref>::deref$": models.m_identity,
        r"^<std::string::String as Deref>::deref$": models.m_identity,
        r"^<std::string::String as Clone>::clone$": models.m_identity,
        r"^Converter::default_system$": models.m_opaque,
    }
    saved0 = dict(it.models)
    it.models.update(cu_models)
    cql = Agg("Quantity", {str(qf.index("value")): Opaque("left value"), str(qf.index("unit")): models.mk_option(it, SV("isize", cu_l), ltxt)})
    cqr = Agg("Quantity", {str(qf.index("value")): Opaque("right value"), str(qf.index("unit")): models.mk_option(it, SV("isize", cu_r), rtxt)})
    both_known = "(and (= cu_lunit 1) (= cu_runit 1) (= cu_lknown 1) (= cu_rknown 1))"
    n_cu = {"some": 0, "none": 0, "err": 0}
    for o in it.run(f_compat, [cql, cqr, Opaque("converter")]):
        p = ">".join(o.trace[-3:])
        if o.kind == "panic":
            ob("compatible_unit never panics: %s" % str(o.msg)[:40], o.pc, "true")
            continue
        if o.kind != "return":
            continue
        res = o.value
        if "Ok" in res.variants:
            opt = res.variants["Ok"].fields["0"]
            for pc2, is_some, payload in models.opt_cases(it, opt):
                if is_some:
                    n_cu["some"] += 1
                    is_left = "true" if payload is lunit_info else "false"
                    ob("compatible_unit Ok(Some) path[%s]: both units are known, of one physical quantity, and the common unit is the LEFT one "
                       "(try_add converts the right value into it and keeps the left unit)" % p, o.pc + pc2,
                       "(not (and %s (= cu_lpq cu_rpq) %s))" % (both_known, is_left))
                    ob("reachable: compatible_unit Ok(Some) path[%s]" % p, o.pc + pc2, "true", "info")
                else:
                    n_cu["none"] += 1
                    ob("compatible_unit Ok(None) path[%s]: no unit on either side, or the same text when a unit is unknown to the converter" % p,
                       o.pc + pc2, "(not (or (and (= cu_lunit 0) (= cu_runit 0)) (and (= cu_lunit 1) (= cu_runit 1) (not %s) cu_text_eq)))" % both_known)
        else:
            n_cu["err"] += 1
            ob("compatible_unit Err path[%s]: exactly one side has a unit, or two known units of different physical quantities, or differing unknown unit texts" % p,
               o.pc, "(not (or (not (= cu_lunit cu_runit)) (and %s (not (= cu_lpq cu_rpq))) (and (= cu_lunit 1) (= cu_runit 1) (not %s) (not cu_text_eq))))" % (both_known, both_known))
    if n_cu["some"] < 1 or n_cu["none"] < 2 or n_cu["err"] < 3:
        run.inconclusive.append("compatible_unit: expected Some / None / Err paths, found %r" % n_cu)
    it.models.clear()
    it.models.update(saved0)

    # ---- ScaledQuantity::try_add: the sum of the (possibly converted) right-hand value, in the left-hand unit
    it.models.update(models.RESULT_MODELS)
    qf = decls.structs.lookup("Quantity", "quantity")
    CV = c08.sym_value(c, "cv")       # whatever Quantity::convert turns the right-hand value into (C09's claim)
    for i in (CV.n, CV.s, CV.e):
        number_values(c, i)
    cv_text = "(= %s %d)" % (CV.discr.expr, CV.idx["Text"])
    cu = sem.sym_int("compatible", "isize", 0, 2)
    conv_ok = sem.sym_int("convert_ok", "isize", 0, 1)
    unit_l, unit_r, unit_c = Opaque("left unit"), Opaque("right unit"), Opaque("common unit")

    def m_compatible(it_, a, callee):
        ok_none = it_._mk_enum("Result", "Ok", [it_._mk_enum("Option", "None", [])])
        ok_some = it_._mk_enum("Result", "Ok", [it_._mk_enum("Option", "Some", [unit_c])])
        err = it_._mk_enum("Result", "Err", [Opaque("IncompatibleUnits")])
        return [(["(= compatible 0)"], ok_none, "return", None), (["(= compatible 1)"], ok_some, "return", None),
                (["(= compatible 2)"], err, "return", None)]

    def m_quantity_convert(it_, a, callee):
        # rhs.convert(&unit, converter): on success rhs holds the converted value (symbolic CV) in the common unit
        q = Agg("Quantity", {str(qf.index("value")): CV, str(qf.index("unit")): models.mk_option(it_, SV("isize", "1"), unit_c)})
        env2_ok = [(["(= convert_ok 1)"], it_._mk_enum("Result", "Ok", [Opaque("unit")]), "return", None)]
        it_.write_ref(a[0], q, it_.cur_env)      # harmless on the error path: the result is discarded there
        return env2_ok + [(["(= convert_ok 0)"], it_._mk_enum("Result", "Err", [Opaque("ConvertError")]), "return", None)]
    it.models[r"^quantity::Quantity::compatible_unit$"] = m_compatible
    it.models[r"^convert::<impl quantity::Quantity>::convert::<"] = m_quantity_convert
    f_q_try_add = c.dump.find_impl_method("try_add", r"\(_1: &quantity::Quantity, _2: &quantity::Quantity, _3: &Converter\)")
    run.functions.append("quantity::ScaledQuantity::try_add (MIR)")
    ql = Agg("Quantity", {str(qf.index("value")): A, str(qf.index("unit")): models.mk_option(it, SV("isize", sem.sym_int("lunit", "isize", 0, 1)), unit_l)})
    qr = Agg("Quantity", {str(qf.index("value")): B, str(qf.index("unit")): models.mk_option(it, SV("isize", sem.sym_int("runit", "isize", 0, 1)), unit_r)})
    n_q_ok = 0
    for o in it.run(f_q_try_add, [ql, qr, Opaque("converter")]):
        p = ">".join(o.trace[-3:])
        if o.kind == "panic":
            ob("ScaledQuantity::try_add never panics: %s" % str(o.msg)[:40], o.pc, "true")
            continue
        if o.kind != "return" or "Ok" not in o.value.variants:
            continue
        n_q_ok += 1
        out = o.value.variants["Ok"].fields["0"]
        val, un = out.fields[str(qf.index("value"))], out.fields[str(qf.index("unit"))]
        direct = "(and (= compatible 0) (not %s) (not %s) %s)" % (a_text, b_text, add_spec(c, A, B, val))
        converted = "(and (= compatible 1) (= convert_ok 1) (not %s) (not %s) %s)" % (a_text, cv_text, add_spec(c, A, CV, val))
        ob("ScaledQuantity::try_add Ok path[%s]: the total is left + right (right converted to the common unit when one exists), kept in the left unit" % p,
           o.pc, "(not (and %s (or %s %s)))" % (c08.same(un, ql.fields[str(qf.index("unit"))]), direct, converted))
    if n_q_ok < 2:
        run.inconclusive.append("ScaledQuantity::try_add: expected success paths with and without conversion, found %d" % n_q_ok)

    # ---- GroupedQuantity::add: one step from a symbolic group state; the sum itself is ScaledQuantity::try_add (above),
    #      summarised here as an opaque "sum of (stored, q)" token or a refusal
    from mir import MapVal, MapElemRef
    f_gq_add = c.dump.find_impl_method("add", r"\(_1: &mut GroupedQuantity, _2: &quantity::Quantity, _3: &Converter\)")
    run.functions.append("quantity::GroupedQuantity::add (MIR)")
    gqf = decls.structs["GroupedQuantity"]
    pqn = [v for v, _ in decls.enums["PhysicalQuantity"]]
    sem.decls.append("(declare-const ta_ok Bool)")
    sem.decls.append("(declare-const key_same Bool)")
    info_tag = sem.sym_int("info_tag", "isize", 0, 1)
    info_pq = sem.sym_int("info_pq", "isize", 0, len(pqn) - 1)
    qv = c08.sym_value(c, "q")
    q_text = "(= %s %d)" % (qv.discr.expr, qv.idx["Text"])
    q_unit = Opaque("unit text of q")
    has_unit = sem.sym_int("q_has_unit", "isize", 0, 1)
    Q = Agg("Quantity", {str(qf.index("value")): qv, str(qf.index("unit")): models.mk_option(it, SV("isize", has_unit), q_unit)})

    def stored(name):
        tag = sem.sym_int(name + "_some", "isize", 0, 1)
        tok = Opaque("stored quantity " + name)
        return models.mk_option(it, SV("isize", tag), tok), tag, tok
    known = [stored("known%d" % i) for i in range(len(pqn))]
    nounit = stored("nounit")
    unk_tok = Opaque("stored unknown-unit quantity")
    unk_key = Opaque("key of the stored unknown-unit quantity")
    other0 = [Opaque("other entry 0")]
    group = Agg("GroupedQuantity", {
        str(gqf.index("known")): VecVal([k[0] for k in known]),
        str(gqf.index("unknown")): MapVal([(unk_key, unk_tok)]),
        str(gqf.index("no_unit")): nounit[0],
        str(gqf.index("other")): VecVal(other0)})
    uf = decls.structs.lookup("Unit", "convert")
    unit_info = models.mk_option(it, SV("isize", info_tag), Agg("Unit", {str(uf.index("physical_quantity")): SV("isize", info_pq)}))
    sums = []

    def m_sum(it_, a, callee):
        st = it_.deref(a[0], it_.cur_env)
        tok = Opaque("sum", [st, a[1]])
        sums.append(tok)
        return [(["ta_ok"], it_._mk_enum("Result", "Ok", [tok]), "return", None),
                (["(not ta_ok)"], it_._mk_enum("Result", "Err", [Opaque("QuantityAddError")]), "return", None)]

    def m_enum_index_mut(it_, a, callee):
        key = a[1]
        vec = it_.deref(a[0], it_.cur_env)
        return [(["(= %s %d)" % (key.expr, i)], mir.ElemRef(a[0], i), "return", None) for i in range(len(vec.items))]

    def m_map_get_mut(it_, a, callee):
        mp = it_.deref(a[0], it_.cur_env)
        if len(mp.entries) != 1:
            raise mir.Unsupported("abstract map with %d entries" % len(mp.entries))
        return [(["key_same"], it_._mk_enum("Option", "Some", [MapElemRef(a[0], 0)]), "return", None),
                (["(not key_same)"], it_._mk_enum("Option", "None", []), "return", None)]

    def m_map_insert(it_, a, callee):
        mp = it_.deref(a[0], it_.cur_env)
        it_.write_ref(a[0], MapVal(mp.entries + [(a[1], a[2])]), it_.cur_env)
        return it_._mk_enum("Option", "None", [])
    gq_models = {
        r"^quantity::Quantity::try_add$": m_sum,
        r"^quantity::Quantity::unit_info$": lambda it_, a, cal: unit_info,
        r"^quantity::Quantity::unit$": lambda it_, a, cal: models.mk_option(it_, SV("isize", has_unit), q_unit),
        r"^std::option::Option::<&str>::unwrap$": lambda it_, a, cal: [(["(= q_has_unit 1)"], q_unit, "return", None),
                                                                        (["(= q_has_unit 0)"], None, "panic", "unwrap on None")],
        r"^std::option::Option::<std::string::String>::is_none$": lambda it_, a, cal: SV("bool", "(= %s 0)" % it_.deref(a[0], it_.cur_env).discr.expr),
        r"^<std::sync::Arc<convert::Unit> as Deref>::deref$": models.m_identity,
        r"^<enum_map::EnumMap<.*> as IndexMut<convert::PhysicalQuantity>>::index_mut$": m_enum_index_mut,
        r"^std::collections::HashMap::<std::string::String, quantity::Quantity>::get_mut::<str>$": m_map_get_mut,
        r"^std::collections::HashMap::<std::string::String, quantity::Quantity>::insert$": m_map_insert,
        r"^<str as ToString>::to_string$": models.m_identity,
        # a case / whitespace transformation of the unit text is, for arbitrary text, a DIFFERENT key than the text itself
        r"^(std|core|alloc)::str::<impl str>::(to_lowercase|to_uppercase|to_ascii_lowercase|to_ascii_uppercase|trim\w*)$":
            lambda it_, a, cal: Opaque("a transformation (%s) of the unit text" % cal.split("::")[-1], [a[0]]),
    }
    saved = dict(it.models)
    it.models.update(gq_models)
    for o in it.run(f_gq_add, [group, Q, Opaque("converter")]):
        p = ">".join(o.trace[-3:])
        if o.kind == "panic":
            ob("GroupedQuantity::add never panics (%s)" % str(o.msg)[:40], o.pc, "true")
            continue
        if o.kind != "return":
            continue
        after = it.deref(o.env["_1"], o.env)
        kn = after.fields[str(gqf.index("known"))].items
        um = after.fields[str(gqf.index("unknown"))].entries
        nu = after.fields[str(gqf.index("no_unit"))]
        ot = after.fields[str(gqf.index("other"))].items

        def bucket(new, old_opt, old_tag, old_tok):
            """new Option<Q> is the bucket after adding q: Some(q) if it was empty, Some(sum(old,q)) if the add worked, untouched
            (and q pushed aside) if the add was refused"""
            if not isinstance(new, Enum):
                return "false", "false"
            inner = new.variants["Some"].fields["0"] if "Some" in new.variants else None
            took = "false"
            if inner is not None:
                is_q = c08.same(inner, Q)
                is_sum = "true" if (isinstance(inner, Opaque) and inner.what == "sum" and inner.args[0] is old_tok and inner.args[1] is Q) else "false"
                took = "(and (= %s 1) (or (and (= %s 0) %s) (and (= %s 1) ta_ok %s)))" % (new.discr.expr, old_tag, is_q, old_tag, is_sum)
            refused = "(and (= %s 1) (not ta_ok) %s)" % (old_tag, c08.same(new, old_opt))
            return took, refused
        same_known = lambda skip: c08.conj([c08.same(kn[i], known[i][0]) for i in range(len(pqn)) if i != skip])
        same_unknown = "true" if (len(um) == 1 and um[0][0] is unk_key and um[0][1] is unk_tok) else "false"
        same_nounit = c08.same(nu, nounit[0])
        other_same = "true" if (len(ot) == 1 and ot[0] is other0[0]) else "false"
        other_plus_q = c08.same(ot[1], Q) if (len(ot) == 2 and ot[0] is other0[0]) else "false"
        cases = []
        # text: kept verbatim in `other`
        cases.append(c08.conj([q_text, other_plus_q, same_known(-1), same_unknown, same_nounit]))
        # no unit
        took, refused = bucket(nu, nounit[0], nounit[1], nounit[2])
        cases.append("(and (not %s) (= q_has_unit 0) %s %s (or (and %s %s) (and %s %s)))" % (
            q_text, same_known(-1), same_unknown, took, other_same, refused, other_plus_q))
        # known unit of physical quantity i
        for i in range(len(pqn)):
            took, refused = bucket(kn[i], known[i][0], known[i][1], known[i][2])
            cases.append("(and (not %s) (= q_has_unit 1) (= info_tag 1) (= info_pq %d) %s %s %s (or (and %s %s) (and %s %s)))" % (
                q_text, i, same_known(i), same_unknown, same_nounit, took, other_same, refused, other_plus_q))
        # unknown unit: same key as the stored one, or a new key
        if len(um) == 1 and um[0][0] is unk_key:
            inner = um[0][1]
            is_sum = "true" if (isinstance(inner, Opaque) and inner.what == "sum" and inner.args[0] is unk_tok and inner.args[1] is Q) else "false"
            stay = "true" if inner is unk_tok else "false"
            cases.append("(and (not %s) (= q_has_unit 1) (= info_tag 0) key_same %s %s (or (and ta_ok %s %s) (and (not ta_ok) %s %s)))" % (
                q_text, same_known(-1), same_nounit, is_sum, other_same, stay, other_plus_q))
        if len(um) == 2 and um[0][0] is unk_key and um[0][1] is unk_tok:
            cases.append("(and (not %s) (= q_has_unit 1) (= info_tag 0) (not key_same) %s %s %s %s)" % (
                q_text, same_known(-1), same_nounit, other_same,
                c08.conj(["true" if um[1][0] is q_unit else "false", c08.same(um[1][1], Q)])))
        ob("GroupedQuantity::add path[%s]: q lands in exactly one bucket (text aside | unitless | its physical quantity | its unknown unit): "
           "stored alone, summed into what is there, or kept aside when it cannot be added; every other bucket untouched" % p,
           o.pc, "(not (or %s))" % " ".join(cases))
    it.models.clear()
    it.models.update(saved)

    # ---- GroupedQuantity::merge: every quantity held by the other group is handed to `add` exactly once (the add step itself is the
    #      obligation above, so merges of any length follow by induction over the other group's entries)
    f_gq_merge = c.dump.find_impl_method("merge", r"\(_1: &mut GroupedQuantity, _2: &GroupedQuantity, _3: &Converter\)")
    run.functions.append("quantity::GroupedQuantity::{merge, iter} (MIR)")
    ok = [stored("oknown%d" % i) for i in range(len(pqn))]
    onounit = stored("onounit")
    ounk = [Opaque("other unknown-unit quantity %d" % i) for i in range(2)]
    oaside = [Opaque("other aside quantity %d" % i) for i in range(2)]
    other = Agg("GroupedQuantity", {
        str(gqf.index("known")): VecVal([k[0] for k in ok]),
        str(gqf.index("unknown")): MapVal([(Opaque("other key %d" % i), ounk[i]) for i in range(2)]),
        str(gqf.index("no_unit")): onounit[0],
        str(gqf.index("other")): VecVal(list(oaside))})

    def m_add_event(it_, a, callee):
        it_.emit(("add", it_.deref(a[1], it_.cur_env) if not isinstance(a[1], Opaque) else a[1]))
        return Opaque("unit")

    def m_opt_iter(it_, a, callee):
        o_ = a[0] if isinstance(a[0], Enum) else it_.deref(a[0], it_.cur_env)
        return [(pc_, models.IterVal([payload] if is_some else []), "return", None) for pc_, is_some, payload in models.opt_cases(it_, o_)]
    it.models.update(models.MORE_MODELS)
    it.models.update({
        r"^GroupedQuantity::add$|^quantity::GroupedQuantity::add$": m_add_event,
        r"^enum_map::iter::<impl enum_map::EnumMap<.*>>::values$": lambda it_, a, cal: models.IterVal(list(it_.deref(a[0], it_.cur_env).items) if not isinstance(a[0], VecVal) else list(a[0].items)),
        r"^<enum_map::Values<'_, .*> as Iterator>::filter_map::<": models.m_iter_filter_map,
        r"^std::collections::HashMap::<.*>::values$": lambda it_, a, cal: models.IterVal([v for _, v in (a[0] if isinstance(a[0], MapVal) else it_.deref(a[0], it_.cur_env)).entries]),
        r"^std::option::Option::<quantity::Quantity>::iter$": m_opt_iter,
        r"^<(std::iter::)?Chain<.*> as IntoIterator>::into_iter$": models.m_iter_same,
        r"^<(std::iter::)?Chain<.*> as Iterator>::next$": models.m_iter_next,
        r"^<(std::iter::)?Chain<.*> as Iterator>::collect::<Vec<": lambda it_, a, cal: VecVal(models._iter_items(it_, a[0])),
        r"^<(std::iter::)?Chain<.*> as Iterator>::for_each::<": models.m_for_each,
        r"^<Vec<&quantity::Quantity> as IntoIterator>::into_iter$": models.m_vec_into_iter_owned,
        r"^<std::vec::IntoIter<&quantity::Quantity> as Iterator>::next$": models.m_iter_next,
    })
    n_merge = 0
    for o in it.run(f_gq_merge, [group, other, Opaque("converter")]):
        p = ">".join(o.trace[-3:])
        if o.kind == "panic":
            ob("GroupedQuantity::merge never panics (%s)" % str(o.msg)[:40], o.pc, "true")
            continue
        if o.kind != "return":
            continue
        n_merge += 1
        added = [e[1] for e in o.events if isinstance(e, tuple) and e[0] == "add"]
        conds = []
        for (opt_, tag_, tok_) in ok + [onounit]:
            cnt = sum(1 for x in added if x is tok_)
            conds.append("(= (= %s 1) %s)" % (tag_, "true" if cnt == 1 else "false"))
            if cnt > 1:
                conds.append("false")
        for tok_ in ounk + oaside:
            conds.append("true" if sum(1 for x in added if x is tok_) == 1 else "false")
        known_toks = [t for (_, _, t) in ok + [onounit]] + ounk + oaside
        conds.append("true" if all(any(x is t for t in known_toks) for x in added) else "false")
        ob("GroupedQuantity::merge path[%s]: every quantity of the other group (each physical-quantity bucket, every unknown-unit entry, every aside "
           "entry, the unitless bucket) is added exactly once, and nothing else is" % p, o.pc, "(not %s)" % c08.conj(conds))
    if n_merge == 0:
        run.inconclusive.append("GroupedQuantity::merge: no returning path")
    it.models.clear()
    it.models.update(saved)

    # ---- GroupedValue::add: one step from every valid shape (<= 1 non-text value, and only at index 0)
    def text(k):
        names = [v for v, _ in decls.enums["Value"]]
        return Enum("Value", SV("isize", str(names.index("Text"))), {"Text": Agg("Value::Text", {"0": Opaque("text %d" % k)})}, names)
    H = c08.sym_value(c, "h")         # the numeric head, when present
    h_text = "(= %s %d)" % (H.discr.expr, H.idx["Text"])
    for i in (H.n, H.s, H.e):
        number_values(c, i)
    shapes = [("[]", []), ("[N]", ["N"]), ("[T]", ["T"]), ("[N,T]", ["N", "T"]), ("[T,T]", ["T", "T"]), ("[N,T,T]", ["N", "T", "T"])]
    is_text_v = lambda v: "(= %s %d)" % (v.discr.expr, v.idx["Text"]) if hasattr(v, "idx") else ("true" if "Text" in v.variants else "false")
    for sname, shape in shapes:
        pre_items = []
        texts = []
        for k, kind in enumerate(shape):
            if kind == "N":
                pre_items.append(H)
            else:
                t = text(k)
                texts.append(t)
                pre_items.append(t)
        group = Agg("GroupedValue", {"0": VecVal(pre_items)})
        has_head = bool(shape) and shape[0] == "N"
        pre = ["(not %s)" % h_text] if has_head else []
        outs = it.run(c.f_gv_add, [group, B], pc=pre)
        for o in outs:
            p = ">".join(o.trace[-3:])
            if o.kind == "panic":
                ob("GroupedValue::add %s + v never panics (%s)" % (sname, str(o.msg)[:50]), o.pc, "true")
                continue
            if o.kind != "return":
                continue
            after = it.deref(o.env["_1"], o.env)
            vec = after.fields["0"] if isinstance(after, Agg) else None
            if not isinstance(vec, VecVal):
                run.inconclusive.append("GroupedValue::add %s: final state not tracked" % sname)
                continue
            new = vec.items
            n0 = len(pre_items)
            # expected per case of the added value
            # (1) v is text: appended last, everything else untouched
            case_text = "false"
            if len(new) == n0 + 1:
                case_text = c08.conj([b_text] + [c08.same(new[k], pre_items[k]) for k in range(n0)] + [c08.same(new[n0], B)])
            # (2) v numeric, group has a numeric head: head becomes head + v, length and texts unchanged
            case_sum = "false"
            if has_head and len(new) == n0:
                case_sum = c08.conj(["(not %s)" % b_text, add_spec(c, H, B, new[0])] + [c08.same(new[k], pre_items[k]) for k in range(1, n0)])
            # (3) v numeric, no numeric head: v becomes the head, texts follow in their order
            case_ins = "false"
            if not has_head and len(new) == n0 + 1:
                case_ins = c08.conj(["(not %s)" % b_text, c08.same(new[0], B)] + [c08.same(new[k + 1], pre_items[k]) for k in range(n0)])
            ob("GroupedValue::add %s + v path[%s]: text appended last | numeric summed into the head | numeric becomes the head; "
               "nothing else changes" % (sname, p), o.pc, "(not (or %s %s %s))" % (case_text, case_sum, case_ins))
    # ---- GroupedValue::merge: the loop over the other group is unrolled by its (concrete) length
    G2 = c08.sym_value(c, "g")        # numeric head of the other group, when present
    g_text = "(= %s %d)" % (G2.discr.expr, G2.idx["Text"])
    for i in (G2.n, G2.s, G2.e):
        number_values(c, i)
    mshapes = [("[]", []), ("[N]", ["N"]), ("[T]", ["T"]), ("[N,T]", ["N", "T"]), ("[T,T]", ["T", "T"])]
    for sname, shape in mshapes[:4]:
        for oname, oshape in mshapes:
            mine = [H if k == "N" else text(10 + j) for j, k in enumerate(shape)]
            theirs = [G2 if k == "N" else text(20 + j) for j, k in enumerate(oshape)]
            pre = []
            if "N" in shape:
                pre.append("(not %s)" % h_text)
            if "N" in oshape:
                pre.append("(not %s)" % g_text)
            me = Agg("GroupedValue", {"0": VecVal(mine)})
            other = Agg("GroupedValue", {"0": VecVal(theirs)})
            for o in it.run(c.f_gv_merge, [me, other], pc=pre):
                p = ">".join(o.trace[-2:])
                if o.kind == "panic":
                    ob("GroupedValue::merge %s <- %s never panics (%s)" % (sname, oname, str(o.msg)[:40]), o.pc, "true")
                    continue
                if o.kind != "return":
                    continue
                after = it.deref(o.env["_1"], o.env)
                vec = after.fields["0"] if isinstance(after, Agg) else None
                if not isinstance(vec, VecVal):
                    run.inconclusive.append("GroupedValue::merge %s <- %s: final state not tracked" % (sname, oname))
                    continue
                new = vec.items
                my_texts = [x for x, k in zip(mine, shape) if k == "T"]
                their_texts = [x for x, k in zip(theirs, oshape) if k == "T"]
                want_texts = my_texts + their_texts
                heads = ("N" in shape) + ("N" in oshape)
                if len(new) != (1 if heads else 0) + len(want_texts):
                    post = "false"
                else:
                    parts = []
                    if heads == 2:
                        parts.append(add_spec(c, H, G2, new[0]))
                    elif "N" in shape:
                        parts.append(c08.same(new[0], H))
                    elif "N" in oshape:
                        parts.append(c08.same(new[0], G2))
                    off = 1 if heads else 0
                    parts += [c08.same(new[off + k], t) for k, t in enumerate(want_texts)]
                    post = c08.conj(parts)
                ob("GroupedValue::merge %s <- %s path[%s]: numeric heads summed, every text of both groups kept in order" % (sname, oname, p),
                   o.pc, "(not %s)" % post)
    run.assumptions += [
        "group states are the shapes admitted by the representation invariant (at most one non-text value, at index 0) with up to two text entries; "
        "the invariant is re-established by every step, so histories of any length are covered up to the number of text entries",
        "numbers: plain 0 or magnitude in [1e-9,1e9]; fractions whole <= 1e9, num <= 64, 1 <= den <= 64, |err| <= 1e3; real+delta float model, "
        "sums compared as float terms (IEEE addition is deterministic and commutative)",
    ]
    run.bounds.append("M: loop-free CFGs, all paths; 6 group shapes x 3 kinds of added value")
    D = list(sem.decls)
    batch = mcheck.Batch(c.ms, "c10", D, timeout_s=120 if run.tier == "quick" else 600, deltas=sem.deltas)
    INPUTS = ["a_tag", "b_tag", "h_tag", "g_tag", "cv_tag", "compatible", "convert_ok", "ta_ok", "key_same", "info_tag", "info_pq", "q_tag", "q_has_unit", "a_n_tag", "a_n_reg", "b_n_tag", "b_n_reg", "h_n_tag", "h_n_reg", "a_s_reg", "a_e_reg", "b_s_reg", "b_e_reg"]

    def on_sat(name):
        def cb(model, obl, item):
            confirm(run, nat, name, model, obl)
        return cb
    for name, pcs, post, expect in items:
        batch.add(name, pcs + ([post] if post != "true" else []), expect, INPUTS if expect == "unsat" else (), on_sat(name))
    done = batch.run()
    if not PANIC_ONLY and sum(1 for d in done if d["expect"] == "info" and d.get("verdict") == "sat") < 4:
        run.inconclusive.append("try_add: fewer than four success paths are reachable - the sum obligations are (partly) vacuous")
    if items:
        run.samples.append({"engine": "mir-smt", "obligation": items[0][0]})
        run.samples.append({"engine": "mir-smt", "obligation": items[-1][0]})
    c.ms.close()


def confirm(run, nat, name, model, obl):
    """replay through the public API: Value::try_add on all kind pairs and GroupedValue built by add()"""
    def g(k, d):
        try:
            v = float(Fraction(model[k]))
            return v
        except Exception:
            return d
    vals = (g("a_n_reg", 1.5), g("b_n_reg", 2.25), g("a_s_reg", 1.0), g("a_e_reg", 2.0), g("b_s_reg", 3.0), g("b_e_reg", 5.0))
    tried = 0
    for v in (vals, (1.5, 2.25, 1.0, 2.0, 3.0, 5.0), (0.1, 0.2, 10.0, 20.0, 0.5, 0.75)):
        for profile in nat.bins:
            r = nat.call("group_scenario", *[repr(x) for x in v], profile=profile)
            tried += 1
            bad = r.get("problems") if isinstance(r, dict) and "error" not in r else ["native scenario failed: %s" % r]
            if bad:
                run.traces_validated += tried
                import re
                key = "scenario obligation=%s" % re.sub(r"path\[.*?\]", "", name).split(":")[0].strip().replace(" ", "_")[:60]
                run.violation(key, "; ".join(bad[:3]), dict(engine="mir-smt", replay="group_scenario", args=[repr(x) for x in v], profile=profile))
                obl["status"] = "violated"
                return
    run.traces_validated += tried
    run.inconclusive.append("C10 %s: candidate does not reproduce through the public API" % name)


def check(run):
    scr = scratch.Scratch()
    scr.copy_repo()
    scr.inject()
    nat = native.Native(scr)
    nat.build(log=os.path.join(run.logdir, "native-build.log"))
    only = os.environ.get("VERIF_ONLY", "")
    if only in ("", "M"):
        try:
            m_part(run, scr, nat)
        except mir.Unsupported as e:
            run.inconclusive.append("encoder: %s" % e)
    if only in ("", "K"):
        kani_group.run_group(run, scr, registry.select("C10", run.tier))
    # validation: the solver's verdict and the real code must agree on concrete histories (public API)
    for args in (("1.5", "2.25", "1.0", "2.0", "3.0", "5.0"), ("0.1", "0.2", "10.0", "20.0", "0.5", "0.75")):
        r = nat.call("group_scenario", *args)
        run.traces_validated += 12
        if ("error" in r or r.get("problems")) and not run.violations:
            # a concrete history that misbehaves on the real code is a violation whatever the encoder thinks
            run.violation("validation-vector group_scenario", "concrete try_add / GroupedValue::add histories misbehave: %s" % "; ".join(r.get("problems", [str(r)])[:3])[:600],
                          dict(engine="validation-vector", replay="group_scenario", args=list(args)))
    run.not_covered += [
        "group_quantities, IngredientList, categorize by aisle: "
        "hash maps / BTreeMap of Strings, out of reach of both engines - the parts a shopping-list user sees are NOT decided here",
        "GroupedValue::merge and groups with more than two text entries (loop over the other group)",
        "the conversion leg of ScaledQuantity::try_add is convert_f64 (decided under C09) followed by this try_add",
    ]


def replay(run, path):
    obj = json.load(open(path))
    scr = scratch.Scratch()
    scr.copy_repo()
    scr.inject()
    if obj.get("engine") == "kani":
        st = kani_group.replay(run, scr, path)
        print("replay:", st)
        if st == "failed":
            print("VIOLATION property=C10 replay=%s" % path)
            return 1
        return 0 if st == "passed" else 2
    nat = native.Native(scr)
    nat.build()
    r = nat.call("group_scenario", *obj["args"])
    print("replay:", r)
    if r.get("problems") or "error" in r:
        print("VIOLATION property=C10 replay=%s" % path)
        return 1
    return 0
