// Companion for the bindings crate: runs the real combination functions on concrete inputs and prints JSON.
use cooklang_bindings::model::{verif_hooks::amount, Ingredient, Value};
use cooklang_bindings::combine_ingredients_selected;
use serde_json::json;

fn value_of(v: &serde_json::Value) -> Option<Value> {
    if v.is_null() { return None; }
    if let Some(x) = v.as_f64() { return Some(Value::Number { value: x }); }
    if let Some(a) = v.as_array() { return Some(Value::Range { start: a[0].as_f64().unwrap(), end: a[1].as_f64().unwrap() }); }
    if let Some(s) = v.as_str() { return Some(if s == "<empty>" { Value::Empty } else { Value::Text { value: s.to_string() } }); }
    None
}

fn main() {
    let args: Vec<String> = std::env::args().collect();
    match args.get(1).map(|s| s.as_str()).unwrap_or("") {
        "combine" => {
            // combine <json [{ingredients: [[name, amount | [start, end] | "text" | null, unit | null]], indices: [..]}]>
            let scen: serde_json::Value = serde_json::from_str(&args[2]).expect("json");
            let mut results = vec![];
            for sc in scen.as_array().unwrap() {
                let ings: Vec<Ingredient> = sc["ingredients"].as_array().unwrap().iter().map(|i| Ingredient {
                    name: i[0].as_str().unwrap().to_string(),
                    amount: value_of(&i[1]).map(|q| amount(q, i[2].as_str().map(|s| s.to_string()))),
                    descriptor: None,
                }).collect();
                let idx: Vec<u32> = sc["indices"].as_array().unwrap().iter().map(|x| x.as_u64().unwrap() as u32).collect();
                let r = std::panic::catch_unwind(|| combine_ingredients_selected(&ings, &idx));
                match r {
                    Err(_) => results.push(json!({"panic": true})),
                    Ok(list) => {
                        let mut entries = vec![];
                        for (name, group) in &list {
                            for (key, value) in group {
                                let kind = format!("{:?}", key.unit_type);
                                let v = match value {
                                    Value::Number { value } => json!({"kind": "Number", "value": value}),
                                    Value::Range { start, end } => json!({"kind": "Range", "value": [start, end]}),
                                    Value::Text { value } => json!({"kind": "Text", "value": value}),
                                    Value::Empty => json!({"kind": "Empty", "value": null}),
                                };
                                entries.push(json!({"name": name, "unit": key.name, "key_kind": kind, "v": v}));
                            }
                        }
                        results.push(json!({"entries": entries}));
                    }
                }
            }
            println!("{}", json!({"results": results}));
        }
        _ => { eprintln!("unknown command"); std::process::exit(2); }
    }
}
