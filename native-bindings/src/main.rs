// Companion for the bindings crate: runs the real combination functions on concrete inputs and prints JSON.
use cooklang_bindings::model::{verif_hooks::amount, Ingredient, Value};
use cooklang_bindings::combine_ingredients_selected;
use serde_json::json;

fn value_of(v: &serde_json::Value) -> Option<Value> {
    if v.is_null() { return None; }
    if let Some(x) = v.as_f64() { return Some(Value::Number { value: x }); }
    if let Some(a) = v.as_array() { return Some(Value::Range { start: a[0].as_f64().unwrap(), end: a[1].as_f64().unwrap() }); }
    if let Some(s) = v.as_str() { return Some(if s == "<empty>" { Value::Empty } else { Value::Text { value: s.to_string() } }); }
    None
}

fn main() {
    let args: Vec<String> = std::env::args().collect();
    match args.get(1).map(|s| s.as_str()).unwrap_or("") {
        "combine" => {
            // combine <json [{ingredients: [[name, amount | [start, end] | "text" | null, unit | null]], indices: [..]}]>
            let scen: serde_json::Value = serde_json::from_str(&args[2]).expect("json");
            let mut results = vec![];
            for sc in scen.as_array().unwrap() {
                let ings: Vec<Ingredient> = sc["ingredients"].as_array().unwrap().iter().map(|i| Ingredient {
                    name: i[0].as_str().unwrap().to_string(),
                    amount: value_of(&i[1]).map(|q| amount(q, i[2].as_str().map(|s| s.to_string()))),
                    descriptor: None,
                }).collect();
                let idx: Vec<u32> = sc["indices"].as_array().unwrap().iter().map(|x| x.as_u64().unwrap() as u32).collect();
                let r = std::panic::catch_unwind(|| combine_ingredients_selected(&ings, &idx));
                match r {
                    Err(_) => results.push(json!({"panic": true})),
                    Ok(list) => {
                        let mut entries = vec![];
                        for (name, group) in &list {
                            for (key, value) in group {
                                let kind = format!("{:?}", key.unit_type);
                                let v = match value {
                                    Value::Number { value } => json!({"kind": "Number", "value": value}),
                                    Value::Range { start, end } => json!({"kind": "Range", "value": [start, end]}),
                                    Value::Text { value } => json!({"kind": "Text", "value": value}),
                                    Value::Empty => json!({"kind": "Empty", "value": null}),
                                };
                                entries.push(json!({"name": name, "unit": key.name, "key_kind": kind, "v": v}));
                            }
                        }
                        results.push(json!({"entries": entries}));
                    }
                }
            }
            println!("{}", json!({"results": results}));
        }
        "view" => {
            // view <text>: the simplified recipe of the bindings against an independent walk over the core recipe
            use cooklang_bindings::model::{Block, Item};
            let text = args[2].replace("\\n", "\n");
            let r = std::panic::catch_unwind(|| {
                let mut problems: Vec<String> = vec![];
                let parser = cooklang::CooklangParser::canonical();
                let core = match parser.parse(&text).into_result() { Ok((r, _)) => r.scale(1.0, parser.converter()), Err(_) => return json!({"problems": ["core parser refuses the scenario"]}) };
                let view = cooklang_bindings::parse_recipe(text.clone(), 1.0);
                if view.sections.len() != core.sections.len() { problems.push(format!("{} sections instead of {}", view.sections.len(), core.sections.len())); return json!({"problems": problems}); }
                if view.ingredients.len() != core.ingredients.len() || view.cookware.len() != core.cookware.len() || view.timers.len() != core.timers.len() { problems.push("component lists differ in length".into()); }
                for (a, b) in view.ingredients.iter().zip(core.ingredients.iter()) { if a.name != b.name || a.descriptor != b.note || a.amount.is_some() != b.quantity.is_some() { problems.push(format!("ingredient {} does not mirror {}", a.name, b.name)); } }
                for (a, b) in view.cookware.iter().zip(core.cookware.iter()) { if a.name != b.name || a.amount.is_some() != b.quantity.is_some() { problems.push(format!("cookware {} does not mirror {}", a.name, b.name)); } }
                for (si, (vs, cs)) in view.sections.iter().zip(core.sections.iter()).enumerate() {
                    if vs.title != cs.name { problems.push(format!("section {si}: title {:?} instead of {:?}", vs.title, cs.name)); }
                    if vs.blocks.len() != cs.content.len() { problems.push(format!("section {si}: {} blocks for {} contents", vs.blocks.len(), cs.content.len())); continue; }
                    let (mut si_i, mut si_c, mut si_t): (Vec<u32>, Vec<u32>, Vec<u32>) = (vec![], vec![], vec![]);
                    for (bi, (vb, cc)) in vs.blocks.iter().zip(cs.content.iter()).enumerate() {
                        match (vb, cc) {
                            (Block::NoteBlock(n), cooklang::Content::Text(t)) => if &n.text != t { problems.push(format!("section {si} block {bi}: note text differs")); },
                            (Block::StepBlock(st), cooklang::Content::Step(cst)) => {
                                if st.items.len() != cst.items.len() { problems.push(format!("section {si} block {bi}: {} items for {}", st.items.len(), cst.items.len())); continue; }
                                let (mut wi, mut wc, mut wt): (Vec<u32>, Vec<u32>, Vec<u32>) = (vec![], vec![], vec![]);
                                for (vi, ci) in st.items.iter().zip(cst.items.iter()) {
                                    let ok = match (vi, ci) {
                                        (Item::Text { value }, cooklang::Item::Text { value: v }) => value == v,
                                        (Item::Text { value }, cooklang::Item::InlineQuantity { .. }) => value.is_empty(),
                                        (Item::IngredientRef { index }, cooklang::Item::Ingredient { index: i }) => { wi.push(*i as u32); *index as usize == *i }
                                        (Item::CookwareRef { index }, cooklang::Item::Cookware { index: i }) => { wc.push(*i as u32); *index as usize == *i }
                                        (Item::TimerRef { index }, cooklang::Item::Timer { index: i }) => { wt.push(*i as u32); *index as usize == *i }
                                        _ => false,
                                    };
                                    if !ok { problems.push(format!("section {si} block {bi}: item {:?} does not mirror {:?}", vi, ci)); }
                                }
                                if st.ingredient_refs != wi || st.cookware_refs != wc || st.timer_refs != wt { problems.push(format!("section {si} block {bi}: step lists {:?}/{:?}/{:?} instead of {:?}/{:?}/{:?}", st.ingredient_refs, st.cookware_refs, st.timer_refs, wi, wc, wt)); }
                                si_i.extend(wi); si_c.extend(wc); si_t.extend(wt);
                            }
                            _ => problems.push(format!("section {si} block {bi}: kind differs")),
                        }
                    }
                    if vs.ingredient_refs != si_i || vs.cookware_refs != si_c || vs.timer_refs != si_t { problems.push(format!("section {si}: lists {:?}/{:?}/{:?} are not the concatenation of its steps' lists {:?}/{:?}/{:?}", vs.ingredient_refs, vs.cookware_refs, vs.timer_refs, si_i, si_c, si_t)); }
                }
                json!({"problems": problems})
            });
            match r { Ok(v) => println!("{}", v), Err(_) => println!("{}", json!({"panic": true})) }
        }
        _ => { eprintln!("unknown command"); std::process::exit(2); }
    }
}
