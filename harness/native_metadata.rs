use super::*;

pub fn time_compact(s: &str) -> Option<u32> {
    parse_common_time_format(s)
}

pub fn hard_coded_units(value: f64, unit: &str) -> Option<f64> {
    hard_coded_time_units(value, unit).ok()
}
