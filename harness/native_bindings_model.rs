// compiled as `cooklang_bindings::model::verif_hooks` under --cfg cooklang_verif (scratch copy only)
use super::*;

/// `Amount` has crate-private fields: the companion binary builds its inputs through this constructor.
pub fn amount(quantity: Value, units: Option<String>) -> Amount {
    Amount { quantity, units }
}
