// Kani harnesses compiled as `crate::metadata::verif_kani` (child module: sees private items).
// Property C13 (durations / servings / locale) and the C03 kernels of the same functions.
use super::*;

fn sym_digits(buf: &mut [u8], at: usize, n: usize) -> u64 {
    let mut v: u64 = 0;
    let mut i = 0;
    while i < n {
        let d: u8 = kani::any();
        kani::assume(d < 10);
        buf[at + i] = b'0' + d;
        v = v * 10 + d as u64;
        i += 1;
    }
    v
}

fn as_str(buf: &[u8]) -> &str {
    // all bytes written are ASCII
    unsafe { std::str::from_utf8_unchecked(buf) }
}

/// `D{NH}hD{NM}m`, `D{NH}h` (NM = 0) or `D{NM}m` (NH = 0); digits symbolic.
/// Oracle: 60*h + m computed in u64.
fn compact<const NH: usize, const NM: usize, const LEN: usize>() {
    let mut buf = [0u8; LEN];
    let mut at = 0;
    let mut h = 0u64;
    let mut m = 0u64;
    if NH > 0 {
        h = sym_digits(&mut buf, at, NH);
        at += NH;
        buf[at] = b'h';
        at += 1;
    }
    if NM > 0 {
        m = sym_digits(&mut buf, at, NM);
        at += NM;
        buf[at] = b'm';
        at += 1;
    }
    assert!(at == LEN);
    let want = h * 60 + m;
    let r = parse_common_time_format(as_str(&buf));
    match r {
        // soundness: never a wrapped or otherwise wrong number
        Some(t) => assert!(t as u64 == want),
        // completeness: a documented form whose total fits is read
        None => assert!(want > u32::MAX as u64 || h > u32::MAX as u64 || m > u32::MAX as u64),
    }
    kani::cover!(r.is_some() && want > 1000);
}

#[kani::proof]
#[kani::unwind(12)]
fn c13_compact_h10() {
    compact::<10, 0, 11>()
}

#[kani::proof]
#[kani::unwind(12)]
fn c13_compact_m10() {
    compact::<0, 10, 11>()
}

#[kani::proof]
#[kani::unwind(13)]
fn c13_compact_h8_m2() {
    compact::<8, 2, 12>()
}

#[kani::proof]
#[kani::unwind(14)]
fn c13_compact_h9_m2() {
    compact::<9, 2, 13>()
}

#[kani::proof]
#[kani::unwind(8)]
fn c13_compact_h2_m3() {
    compact::<2, 3, 7>()
}

#[kani::proof]
#[kani::unwind(8)]
fn c13_compact_twin_reach() {
    // vacuity twin: the final assertion must be reported as FAILED
    compact::<2, 3, 7>();
    assert!(false);
}

/// Malformed compact layouts: 5 bytes, each from {h, m, digit, ' ', 'x'}; the kernel must
/// return Some only for the documented shapes `D+h`, `D+m`, `D+hD+m`.
#[kani::proof]
#[kani::unwind(7)]
fn c13_compact_malformed5() {
    let mut buf = [0u8; 5];
    let mut kinds = [0u8; 5];
    let mut i = 0;
    while i < 5 {
        let k: u8 = kani::any();
        kani::assume(k < 5);
        kinds[i] = k;
        buf[i] = match k {
            0 => b'h',
            1 => b'm',
            2 => {
                let d: u8 = kani::any();
                kani::assume(d < 10);
                b'0' + d
            }
            3 => b' ',
            _ => b'x',
        };
        i += 1;
    }
    let r = parse_common_time_format(as_str(&buf));
    // reference recogniser over the kind string: D+ h (D+ m)? | D+ m
    let mut st = 0u8; // 0 start,1 digits(h or m),2 after h,3 digits after h,4 done, 9 reject
    let mut j = 0;
    while j < 5 {
        let k = kinds[j];
        st = match (st, k) {
            (0, 2) => 1,
            (1, 2) => 1,
            (1, 0) => 2,
            (1, 1) => 4,
            (2, 2) => 3,
            (3, 2) => 3,
            (3, 1) => 4,
            _ => 9,
        };
        j += 1;
    }
    let well_formed = st == 2 || st == 4;
    assert!(r.is_some() == well_formed);
    kani::cover!(well_formed);
    kani::cover!(!well_formed);
}

// ---------------------------------------------------------------------------------------------
// K-2: number-unit pairs with the hard-coded units (empty converter)

fn rs_stub() -> std::hash::RandomState {
    // RandomState::new() performs a getrandom syscall Kani cannot model. No harness inserts into or
    // iterates a hash map, so the keys cannot influence a verdict.
    unsafe { std::mem::transmute::<[u64; 2], std::hash::RandomState>([1, 2]) }
}
fn fmt_stub(_a: std::fmt::Arguments<'_>) -> String {
    String::new()
}

const UNITS: [(&str, u32); 16] = [
    ("s", 0), ("sec", 0), ("secs", 0), ("second", 0), ("seconds", 0),
    ("m", 1), ("min", 1), ("minute", 1), ("minutes", 1),
    ("h", 60), ("hour", 60), ("hours", 60),
    ("d", 1440), ("day", 1440), ("days", 1440),
    ("", 7),
];

/// Every documented spelling maps to its documented factor; an undocumented spelling is refused.
/// `value` is an exact small integer (multiple of 60) so that the documented factor can be stated in
/// integers: seconds = 1/60 min, minutes = 1, hours = 60, days = 1440.
#[kani::proof]
#[kani::unwind(20)]
fn c13_units_factors() {
    let j: u32 = kani::any();
    kani::assume(j <= 1_000_000);
    let v = (j as u64 * 60) as f64;
    let mut i = 0;
    while i < 15 {
        let (name, factor) = UNITS[i];
        let r = hard_coded_time_units(v, name);
        match r {
            Ok(min) => {
                if factor == 0 {
                    assert!(min == j as f64);
                } else {
                    assert!(min == (j as u64 * 60 * factor as u64) as f64);
                }
            }
            Err(e) => {
                std::mem::forget(e);
                assert!(false);
            }
        }
        i += 1;
    }
    for bad in ["", "x", "mins", "hr", "hs", "S", "M", "H", "D", "ms", "w", "week"] {
        let r = hard_coded_time_units(v, bad);
        assert!(r.is_err());
        std::mem::forget(r);
    }
    kani::cover!(j > 7);
}

/// Stand-in for `<f64 as FromStr>::from_str` on the strings these harnesses can produce: an all-digit
/// string of at most 15 digits denotes an integer below 2^53, which the real dec2flt returns exactly;
/// the empty string and strings containing anything else than digits and at most one inner `.` are
/// errors.  (dec2flt itself - 128-bit multiplications against power-of-five tables - does not
/// finish in CBMC even for 3 symbolic digits.)
fn f64_from_str_stub(s: &str) -> Result<f64, ParseFloatError> {
    let b = s.as_bytes();
    let err: ParseFloatError = unsafe { std::mem::transmute::<u8, ParseFloatError>(1) };
    if b.is_empty() || b.len() > 15 {
        return Err(err);
    }
    let mut v: u64 = 0;
    let mut i = 0;
    while i < b.len() {
        if !b[i].is_ascii_digit() {
            return Err(err);
        }
        v = v * 10 + (b[i] - b'0') as u64;
        i += 1;
    }
    Ok(v as f64)
}

/// `DDu` and `DD u` for one-letter units with the empty converter: the result is the documented
/// total, the final float->u32 cast included.
fn pair_layout<const ND: usize, const SPACE: bool, const LEN: usize>(unit: u8, factor_num: u64, factor_den: u64) {
    let mut buf = [0u8; LEN];
    let n = sym_digits(&mut buf, 0, ND);
    let mut at = ND;
    if SPACE {
        buf[at] = b' ';
        at += 1;
    }
    buf[at] = unit;
    at += 1;
    assert!(at == LEN);
    let conv = Converter::empty();
    let r = parse_time_with_units(as_str(&buf), &conv);
    // documented: rounded total of minutes (half away from zero)
    let want = (2 * n * factor_num + factor_den) / (2 * factor_den);
    match &r {
        Ok(t) => assert!(*t as u64 == want && want <= u32::MAX as u64),
        Err(_) => assert!(want > u32::MAX as u64),
    }
    kani::cover!(r.is_ok() && n > 10);
    std::mem::forget(r);
    std::mem::forget(conv);
}

#[kani::proof]
#[kani::unwind(8)]
#[kani::stub(std::hash::RandomState::new, rs_stub)]
#[kani::stub(alloc::fmt::format, fmt_stub)]
#[kani::stub(<f64 as std::str::FromStr>::from_str, f64_from_str_stub)]
fn c13_pair_3h() {
    pair_layout::<3, false, 4>(b'h', 60, 1)
}

#[kani::proof]
#[kani::unwind(8)]
#[kani::stub(std::hash::RandomState::new, rs_stub)]
#[kani::stub(alloc::fmt::format, fmt_stub)]
#[kani::stub(<f64 as std::str::FromStr>::from_str, f64_from_str_stub)]
fn c13_pair_3_s() {
    pair_layout::<3, true, 5>(b's', 1, 60)
}

/// Seven-digit day counts exceed u32 minutes (9999999 d = 1.44e10 min): the accessor must refuse,
/// never return a saturated or wrapped number.
#[kani::proof]
#[kani::unwind(10)]
#[kani::stub(std::hash::RandomState::new, rs_stub)]
#[kani::stub(alloc::fmt::format, fmt_stub)]
#[kani::stub(<f64 as std::str::FromStr>::from_str, f64_from_str_stub)]
fn c13_pair_7d_range() {
    pair_layout::<7, false, 8>(b'd', 1440, 1)
}

// ---------------------------------------------------------------------------------------------
// K-3: the float fallback of parse_time (`"<number>"` = minutes)

#[kani::proof]
#[kani::unwind(8)]
#[kani::stub(std::hash::RandomState::new, rs_stub)]
#[kani::stub(alloc::fmt::format, fmt_stub)]
#[kani::stub(<f64 as std::str::FromStr>::from_str, f64_from_str_stub)]
fn c13_plain_minutes_3() {
    let mut buf = [0u8; 3];
    let n = sym_digits(&mut buf, 0, 3);
    let conv = Converter::empty();
    let r = parse_time(as_str(&buf), &conv);
    match &r {
        Ok(t) => assert!(*t as u64 == n),
        Err(_) => assert!(false),
    }
    std::mem::forget(r);
    std::mem::forget(conv);
}

/// `-DD`: a negative number of minutes is outside the documented forms: nothing, never 0.
#[kani::proof]
#[kani::unwind(8)]
#[kani::stub(std::hash::RandomState::new, rs_stub)]
#[kani::stub(alloc::fmt::format, fmt_stub)]
#[kani::stub(<f64 as std::str::FromStr>::from_str, f64_from_str_stub)]
fn c13_plain_negative() {
    let mut buf = [0u8; 3];
    buf[0] = b'-';
    let n = sym_digits(&mut buf, 1, 2);
    kani::assume(n >= 1);
    let conv = Converter::empty();
    let r = parse_time(as_str(&buf), &conv);
    assert!(r.is_err());
    std::mem::forget(r);
    std::mem::forget(conv);
}

// ---------------------------------------------------------------------------------------------
// K-4: servings

fn yaml_str(buf: &[u8]) -> serde_yaml::Value {
    serde_yaml::Value::String(String::from(as_str(buf)))
}

/// `D{ND}` followed by NT bytes from {' ', '-', '.', 'x', digit}: the leading ASCII-alphanumeric run
/// must be digits only and fit u32, then exactly that number is returned; otherwise an error.
fn servings_one<const ND: usize, const NT: usize, const LEN: usize>() {
    let mut buf = [0u8; LEN];
    let mut n = sym_digits(&mut buf, 0, ND);
    let mut run_is_number = true;
    let mut in_run = true;
    let mut i = 0;
    while i < NT {
        let k: u8 = kani::any();
        kani::assume(k < 5);
        let c = match k {
            0 => b' ',
            1 => b'-',
            2 => b'.',
            3 => b'x',
            _ => {
                let d: u8 = kani::any();
                kani::assume(d < 10);
                b'0' + d
            }
        };
        buf[ND + i] = c;
        if in_run {
            if c == b'x' {
                run_is_number = false;
            } else if c.is_ascii_digit() {
                n = n * 10 + (c - b'0') as u64;
            } else {
                in_run = false;
            }
        }
        i += 1;
    }
    // trailing blank is trimmed by the accessor before extraction; does not change the run
    let v = yaml_str(&buf);
    let r = value_as_servings(&v);
    match &r {
        Ok(list) => {
            assert!(run_is_number && n <= u32::MAX as u64);
            assert!(list.len() == 1 && list[0] as u64 == n);
        }
        Err(_) => assert!(!run_is_number || n > u32::MAX as u64),
    }
    kani::cover!(r.is_ok());
    kani::cover!(r.is_err());
    std::mem::forget(r);
    std::mem::forget(v);
}

#[kani::proof]
#[kani::unwind(8)]
#[kani::stub(alloc::fmt::format, fmt_stub)]
fn c13_servings_d2_t2() {
    servings_one::<2, 2, 4>()
}

#[kani::proof]
#[kani::unwind(13)]
#[kani::stub(alloc::fmt::format, fmt_stub)]
fn c13_servings_d10() {
    servings_one::<10, 0, 10>()
}

/// `D|D|D`: duplicates are refused, otherwise the three numbers in order.
#[kani::proof]
#[kani::unwind(8)]
#[kani::stub(alloc::fmt::format, fmt_stub)]
fn c13_servings_list3() {
    let mut buf = [0u8; 5];
    let a = sym_digits(&mut buf, 0, 1);
    buf[1] = b'|';
    let b = sym_digits(&mut buf, 2, 1);
    buf[3] = b'|';
    let c = sym_digits(&mut buf, 4, 1);
    let v = yaml_str(&buf);
    let r = value_as_servings(&v);
    let dup = a == b || b == c || a == c;
    match &r {
        Ok(l) => {
            assert!(!dup);
            assert!(l.len() == 3 && l[0] as u64 == a && l[1] as u64 == b && l[2] as u64 == c);
        }
        Err(_) => assert!(dup),
    }
    kani::cover!(r.is_ok());
    kani::cover!(r.is_err());
    std::mem::forget(r);
    std::mem::forget(v);
}

// ---------------------------------------------------------------------------------------------
// K-5: locale

fn sym_ascii(buf: &mut [u8]) {
    let mut i = 0;
    while i < buf.len() {
        let c: u8 = kani::any();
        kani::assume(c >= 0x20 && c < 0x7f);
        buf[i] = c;
        i += 1;
    }
}

fn locale_n<const N: usize>() -> bool {
    let mut buf = [0u8; N];
    sym_ascii(&mut buf);
    let v = yaml_str(&buf);
    let r = value_as_locale(&v);
    let al = |c: u8| c.is_ascii_alphabetic();
    let want = match N {
        2 => al(buf[0]) && al(buf[1]),
        5 => al(buf[0]) && al(buf[1]) && buf[2] == b'_' && al(buf[3]) && al(buf[4]),
        _ => false,
    };
    assert!(r.is_ok() == want);
    if let Ok((l, d)) = &r {
        assert!(l.len() == 2);
        assert!(d.is_none() == (N == 2));
    }
    std::mem::forget(r);
    std::mem::forget(v);
    want
}

#[kani::proof]
#[kani::unwind(8)]
#[kani::stub(alloc::fmt::format, fmt_stub)]
fn c13_locale_2() {
    let w = locale_n::<2>();
    kani::cover!(w);
    kani::cover!(!w);
}
#[kani::proof]
#[kani::unwind(8)]
#[kani::stub(alloc::fmt::format, fmt_stub)]
fn c13_locale_3() {
    let w = locale_n::<3>();
    kani::cover!(!w);
}
#[kani::proof]
#[kani::unwind(8)]
#[kani::stub(alloc::fmt::format, fmt_stub)]
fn c13_locale_5() {
    let w = locale_n::<5>();
    kani::cover!(w);
    kani::cover!(!w);
}

// ---------------------------------------------------------------------------------------------
// K-2b: every spelling -> its documented factor (symbolic spelling, concrete value)

/// the 15 documented spellings of the hard-coded table and their factor in minutes per unit (x60 to stay integral)
const DOC_UNITS: [(&[u8], u32); 15] = [
    (b"s", 1), (b"sec", 1), (b"secs", 1), (b"second", 1), (b"seconds", 1),
    (b"m", 60), (b"min", 60), (b"minute", 60), (b"minutes", 60),
    (b"h", 3600), (b"hour", 3600), (b"hours", 3600),
    (b"d", 86400), (b"day", 86400), (b"days", 86400),
];

fn doc_factor(b: &[u8]) -> Option<u32> {
    let mut i = 0;
    while i < 15 {
        let (name, f) = DOC_UNITS[i];
        if name.len() == b.len() {
            let mut same = true;
            let mut j = 0;
            while j < name.len() {
                if name[j] != b[j] {
                    same = false;
                }
                j += 1;
            }
            if same {
                return Some(f);
            }
        }
        i += 1;
    }
    None
}

/// unit = N symbolic lower-case ASCII letters; value = 120 (so that every factor gives an exact result)
fn unit_spelling<const N: usize>() -> bool {
    let mut buf = [0u8; N];
    let mut i = 0;
    while i < N {
        let c: u8 = kani::any();
        kani::assume(c >= b'a' && c <= b'z');
        buf[i] = c;
        i += 1;
    }
    let r = hard_coded_time_units(120.0, as_str(&buf));
    let want = doc_factor(&buf);
    let ok = match (&r, want) {
        (Ok(min), Some(f)) => {
            // minutes = 120 * f / 60
            assert!(*min == (2 * f) as f64);
            true
        }
        (Err(_), None) => false,
        _ => {
            assert!(false);
            false
        }
    };
    std::mem::forget(r);
    ok
}

#[kani::proof]
#[kani::unwind(17)]
#[kani::stub(alloc::fmt::format, fmt_stub)]
fn c13_unit_spelling_1() {
    let ok = unit_spelling::<1>();
    kani::cover!(ok);
    kani::cover!(!ok);
}
#[kani::proof]
#[kani::unwind(17)]
#[kani::stub(alloc::fmt::format, fmt_stub)]
fn c13_unit_spelling_2() {
    let ok = unit_spelling::<2>();
    kani::cover!(!ok);
}
#[kani::proof]
#[kani::unwind(17)]
#[kani::stub(alloc::fmt::format, fmt_stub)]
fn c13_unit_spelling_3() {
    let ok = unit_spelling::<3>();
    kani::cover!(ok);
    kani::cover!(!ok);
}
#[kani::proof]
#[kani::unwind(17)]
#[kani::stub(alloc::fmt::format, fmt_stub)]
fn c13_unit_spelling_4() {
    let ok = unit_spelling::<4>();
    kani::cover!(ok);
    kani::cover!(!ok);
}
#[kani::proof]
#[kani::unwind(17)]
#[kani::stub(alloc::fmt::format, fmt_stub)]
fn c13_unit_spelling_5() {
    let ok = unit_spelling::<5>();
    kani::cover!(ok);
    kani::cover!(!ok);
}
#[kani::proof]
#[kani::unwind(17)]
#[kani::stub(alloc::fmt::format, fmt_stub)]
fn c13_unit_spelling_6() {
    let ok = unit_spelling::<6>();
    kani::cover!(ok);
    kani::cover!(!ok);
}
#[kani::proof]
#[kani::unwind(17)]
#[kani::stub(alloc::fmt::format, fmt_stub)]
fn c13_unit_spelling_7() {
    let ok = unit_spelling::<7>();
    kani::cover!(ok);
    kani::cover!(!ok);
}

// ---------------------------------------------------------------------------------------------
// K-5b: locale with a two-byte UTF-8 character where an ASCII letter is expected

/// `XY` where XY is one two-byte character (U+0080..U+07FF): not a two-letter code
#[kani::proof]
#[kani::unwind(8)]
#[kani::stub(alloc::fmt::format, fmt_stub)]
fn c13_locale_2byte_char() {
    let b0: u8 = kani::any();
    let b1: u8 = kani::any();
    kani::assume(b0 >= 0xC2 && b0 <= 0xDF && b1 >= 0x80 && b1 <= 0xBF);
    let buf = [b0, b1];
    let v = yaml_str(&buf);
    let r = value_as_locale(&v);
    assert!(r.is_err());
    std::mem::forget(r);
    std::mem::forget(v);
}

/// `ll_C` with C a two-byte character, and `C_ll`: refused
#[kani::proof]
#[kani::unwind(8)]
#[kani::stub(alloc::fmt::format, fmt_stub)]
fn c13_locale_5_2byte_dialect() {
    let b0: u8 = kani::any();
    let b1: u8 = kani::any();
    kani::assume(b0 >= 0xC2 && b0 <= 0xDF && b1 >= 0x80 && b1 <= 0xBF);
    let first: bool = kani::any();
    let buf = if first { [b0, b1, b'_', b'e', b'n'] } else { [b'e', b'n', b'_', b0, b1] };
    let v = yaml_str(&buf);
    let r = value_as_locale(&v);
    assert!(r.is_err());
    std::mem::forget(r);
    std::mem::forget(v);
}

// ---------------------------------------------------------------------------------------------
// K-4b: servings given as a YAML list of numbers: the numbers in order, duplicates refused

fn yaml_num(n: u32) -> serde_yaml::Value {
    serde_yaml::Value::Number(serde_yaml::Number::from(n as u64))
}

#[kani::proof]
#[kani::unwind(8)]
#[kani::stub(alloc::fmt::format, fmt_stub)]
fn c13_servings_seq3() {
    let a: u32 = kani::any();
    let b: u32 = kani::any();
    let c: u32 = kani::any();
    let v = serde_yaml::Value::Sequence(vec![yaml_num(a), yaml_num(b), yaml_num(c)]);
    let r = value_as_servings(&v);
    let dup = a == b || b == c || a == c;
    match &r {
        Ok(l) => {
            assert!(!dup);
            assert!(l.len() == 3 && l[0] == a && l[1] == b && l[2] == c);
        }
        Err(_) => assert!(dup),
    }
    kani::cover!(r.is_ok());
    kani::cover!(r.is_err());
    std::mem::forget(r);
    std::mem::forget(v);
}

#[kani::proof]
#[kani::unwind(8)]
#[kani::stub(alloc::fmt::format, fmt_stub)]
fn c13_servings_seq4() {
    let x: [u32; 4] = kani::any();
    let v = serde_yaml::Value::Sequence(vec![yaml_num(x[0]), yaml_num(x[1]), yaml_num(x[2]), yaml_num(x[3])]);
    let r = value_as_servings(&v);
    let dup = x[0] == x[1] || x[0] == x[2] || x[0] == x[3] || x[1] == x[2] || x[1] == x[3] || x[2] == x[3];
    match &r {
        Ok(l) => {
            assert!(!dup);
            assert!(l.len() == 4 && l[0] == x[0] && l[1] == x[1] && l[2] == x[2] && l[3] == x[3]);
        }
        Err(_) => assert!(dup),
    }
    kani::cover!(r.is_ok());
    kani::cover!(r.is_err());
    std::mem::forget(r);
    std::mem::forget(v);
}

/// a single YAML number is the servings count itself
#[kani::proof]
#[kani::unwind(8)]
#[kani::stub(alloc::fmt::format, fmt_stub)]
fn c13_servings_number() {
    let a: u32 = kani::any();
    let v = yaml_num(a);
    let r = value_as_servings(&v);
    match &r {
        Ok(l) => assert!(l.len() == 1 && l[0] == a),
        Err(_) => assert!(false),
    }
    std::mem::forget(r);
    std::mem::forget(v);
}

// NOTE: a harness on `value_as_tags` (YAML list of three one-byte strings) was measured and dropped: CBMC did not
// finish within 900 s (Cow<str> equality + Vec<Cow> growth).

// ---------------------------------------------------------------------------------------------
// K-7: RecipeTime::total - the sum of preparation and cooking time never overflows / panics

#[kani::proof]
#[kani::unwind(4)]
fn c13_recipe_time_total() {
    let total: bool = kani::any();
    let t = if total {
        RecipeTime::Total(kani::any())
    } else {
        RecipeTime::Composed { prep_time: kani::any(), cook_time: kani::any() }
    };
    let r = t.total();
    match t {
        RecipeTime::Total(x) => assert!(r == x),
        RecipeTime::Composed { prep_time, cook_time } => {
            let want = prep_time.unwrap_or(0) as u64 + cook_time.unwrap_or(0) as u64;
            // the documented total is prep + cook; when that does not fit the type the accessor must not wrap
            assert!(r as u64 == want || want > u32::MAX as u64);
            assert!(r as u64 <= want);
        }
    }
}
