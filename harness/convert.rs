// Kani harnesses compiled as `crate::convert::verif_kani` (child module of `convert`).
// C09: conversion to a system picks a unit of that system's designated list and converts the value
// with the kernel; failure cases leave the quantity unchanged.
use super::*;
use crate::quantity::{Number, Quantity, Value};

fn rs_stub() -> std::hash::RandomState {
    unsafe { std::mem::transmute::<[u64; 2], std::hash::RandomState>([1, 2]) }
}
fn fmt_stub(_a: std::fmt::Arguments<'_>) -> String {
    String::new()
}

/// Marker for the affine kernel (decided separately by Engine M): an injective-enough bit mix of the
/// value and the two ratios, cheap for SAT, so that these harnesses decide *which* unit is selected and
/// *which* arguments reach the kernel without bit-blasting float division.
fn conv_marker(value: f64, from: &Unit, to: &Unit) -> f64 {
    f64::from_bits(value.to_bits() ^ from.ratio.to_bits().rotate_left(7) ^ to.ratio.to_bits().rotate_left(13))
}

fn mk_unit(ratio: f64, system: Option<System>, q: PhysicalQuantity) -> Arc<Unit> {
    Arc::new(Unit {
        names: Vec::new(),
        symbols: Vec::new(),
        aliases: Vec::new(),
        ratio,
        difference: 0.0,
        physical_quantity: q,
        system,
    })
}

fn any_ratio() -> f64 {
    let r: f64 = kani::any();
    kani::assume(r >= 1e-3 && r <= 1e5);
    r
}

fn any_th() -> f64 {
    let r: f64 = kani::any();
    kani::assume(r >= 0.0 && r <= 1e6);
    r
}

/// four volume units: 0,1 metric; 2,3 imperial; best lists per system with symbolic thresholds
fn small_converter() -> Converter {
    let mut conv = Converter::empty();
    conv.all_units = vec![
        mk_unit(any_ratio(), Some(System::Metric), PhysicalQuantity::Volume),
        mk_unit(any_ratio(), Some(System::Metric), PhysicalQuantity::Volume),
        mk_unit(any_ratio(), Some(System::Imperial), PhysicalQuantity::Volume),
        mk_unit(any_ratio(), Some(System::Imperial), PhysicalQuantity::Volume),
    ];
    conv.best[PhysicalQuantity::Volume] = BestConversionsStore::BySystem {
        metric: BestConversions(vec![(any_th(), 0), (any_th(), 1)]),
        imperial: BestConversions(vec![(any_th(), 2), (any_th(), 3)]),
    };
    conv
}

#[kani::proof]
#[kani::unwind(6)]
#[kani::stub(std::hash::RandomState::new, rs_stub)]
#[kani::stub(alloc::fmt::format, fmt_stub)]
#[kani::stub(crate::convert::convert_f64, conv_marker)]
fn c09_convert_to_best_number() {
    let conv = small_converter();
    let k: usize = kani::any();
    kani::assume(k < 4);
    let to_imperial: bool = kani::any();
    let system = if to_imperial { System::Imperial } else { System::Metric };
    let v: f64 = kani::any();
    kani::assume(v.is_finite() && v.abs() <= 1e9);
    let from = conv.all_units[k].clone();
    let r = conv.convert_to_best(ConvertValue::Number(v), &from, system);
    match &r {
        Ok((ConvertValue::Number(out), unit)) => {
            // the unit comes from the target system's designated list
            let lo = if to_imperial { 2 } else { 0 };
            let is0 = Arc::ptr_eq(unit, &conv.all_units[lo]);
            let is1 = Arc::ptr_eq(unit, &conv.all_units[lo + 1]);
            assert!(is0 || is1);
            // and the amount is the kernel's conversion into exactly that unit
            let want = conv.convert_f64(v, &from, unit);
            assert!(out.to_bits() == want.to_bits());
            kani::cover!(is1);
            kani::cover!(is0);
        }
        _ => assert!(false),
    }
    std::mem::forget(r);
    std::mem::forget(from);
    std::mem::forget(conv);
}

#[kani::proof]
#[kani::unwind(6)]
#[kani::stub(std::hash::RandomState::new, rs_stub)]
#[kani::stub(alloc::fmt::format, fmt_stub)]
#[kani::stub(crate::convert::convert_f64, conv_marker)]
fn c09_convert_to_best_range() {
    let conv = small_converter();
    let k: usize = kani::any();
    kani::assume(k < 4);
    let to_imperial: bool = kani::any();
    let system = if to_imperial { System::Imperial } else { System::Metric };
    let s: f64 = kani::any();
    let e: f64 = kani::any();
    kani::assume(s.is_finite() && s.abs() <= 1e9 && e.is_finite() && e.abs() <= 1e9);
    let from = conv.all_units[k].clone();
    let r = conv.convert_to_best(ConvertValue::Range(s..=e), &from, system);
    match &r {
        Ok((ConvertValue::Range(out), unit)) => {
            let lo = if to_imperial { 2 } else { 0 };
            assert!(Arc::ptr_eq(unit, &conv.all_units[lo]) || Arc::ptr_eq(unit, &conv.all_units[lo + 1]));
            assert!(out.start().to_bits() == conv.convert_f64(s, &from, unit).to_bits());
            assert!(out.end().to_bits() == conv.convert_f64(e, &from, unit).to_bits());
        }
        _ => assert!(false),
    }
    kani::cover!(r.is_ok());
    std::mem::forget(r);
    std::mem::forget(from);
    std::mem::forget(conv);
}

/// an empty designated list is an error, not a panic
#[kani::proof]
#[kani::unwind(6)]
#[kani::stub(std::hash::RandomState::new, rs_stub)]
#[kani::stub(alloc::fmt::format, fmt_stub)]
fn c09_convert_to_best_empty_list() {
    let mut conv = Converter::empty();
    conv.all_units = vec![mk_unit(any_ratio(), Some(System::Metric), PhysicalQuantity::Mass)];
    let v: f64 = kani::any();
    kani::assume(v.is_finite());
    let from = conv.all_units[0].clone();
    let r = conv.convert_to_best(ConvertValue::Number(v), &from, System::Imperial);
    assert!(r.is_err());
    std::mem::forget(r);
    std::mem::forget(from);
    std::mem::forget(conv);
}

// NOTE: a harness through `ScaledQuantity::convert` (unitless / unknown unit => error, quantity unchanged) makes
// kani-compiler 0.68 abort with an internal error (intrinsics.rs:243, reached through the #[tracing::instrument]
// expansion of convert_impl); that part of C09 is therefore not covered.

#[kani::proof]
#[kani::unwind(6)]
#[kani::stub(std::hash::RandomState::new, rs_stub)]
#[kani::stub(alloc::fmt::format, fmt_stub)]
#[kani::stub(crate::convert::convert_f64, conv_marker)]
fn c09_convert_twin_reach() {
    let conv = small_converter();
    let v: f64 = kani::any();
    kani::assume(v.is_finite() && v.abs() <= 1e9);
    let from = conv.all_units[0].clone();
    let r = conv.convert_to_best(ConvertValue::Number(v), &from, System::Imperial);
    if r.is_ok() {
        assert!(false);
    }
    std::mem::forget(r);
    std::mem::forget(from);
    std::mem::forget(conv);
}
