// Kani harnesses compiled as `crate::convert::verif_kani` (child module of `convert`).
// C09: conversion to a system picks a unit of that system's designated list and converts the value
// with the kernel; failure cases leave the quantity unchanged.
use super::*;
use crate::quantity::{Number, Quantity, Value};

fn rs_stub() -> std::hash::RandomState {
    unsafe { std::mem::transmute::<[u64; 2], std::hash::RandomState>([1, 2]) }
}
fn fmt_stub(_a: std::fmt::Arguments<'_>) -> String {
    String::new()
}

/// Marker for the affine kernel (decided separately by Engine M): an injective-enough bit mix of the
/// value and the two ratios, cheap for SAT, so that these harnesses decide *which* unit is selected and
/// *which* arguments reach the kernel without bit-blasting float division.
fn conv_marker(value: f64, from: &Unit, to: &Unit) -> f64 {
    f64::from_bits(value.to_bits() ^ from.ratio.to_bits().rotate_left(7) ^ to.ratio.to_bits().rotate_left(13))
}

fn mk_unit(ratio: f64, system: Option<System>, q: PhysicalQuantity) -> Arc<Unit> {
    Arc::new(Unit {
        names: Vec::new(),
        symbols: Vec::new(),
        aliases: Vec::new(),
        ratio,
        difference: 0.0,
        physical_quantity: q,
        system,
    })
}

fn any_ratio() -> f64 {
    let r: f64 = kani::any();
    kani::assume(r >= 1e-3 && r <= 1e5);
    r
}

fn any_th() -> f64 {
    let r: f64 = kani::any();
    kani::assume(r >= 0.0 && r <= 1e6);
    r
}

/// four volume units: 0,1 metric; 2,3 imperial; best lists per system with symbolic thresholds
fn small_converter() -> Converter {
    let mut conv = Converter::empty();
    conv.all_units = vec![
        mk_unit(any_ratio(), Some(System::Metric), PhysicalQuantity::Volume),
        mk_unit(any_ratio(), Some(System::Metric), PhysicalQuantity::Volume),
        mk_unit(any_ratio(), Some(System::Imperial), PhysicalQuantity::Volume),
        mk_unit(any_ratio(), Some(System::Imperial), PhysicalQuantity::Volume),
    ];
    conv.best[PhysicalQuantity::Volume] = BestConversionsStore::BySystem {
        metric: BestConversions(vec![(any_th(), 0), (any_th(), 1)]),
        imperial: BestConversions(vec![(any_th(), 2), (any_th(), 3)]),
    };
    conv
}

#[kani::proof]
#[kani::unwind(6)]
#[kani::stub(std::hash::RandomState::new, rs_stub)]
#[kani::stub(alloc::fmt::format, fmt_stub)]
#[kani::stub(crate::convert::convert_f64, conv_marker)]
fn c09_convert_to_best_number() {
    let conv = small_converter();
    let k: usize = kani::any();
    kani::assume(k < 4);
    let to_imperial: bool = kani::any();
    let system = if to_imperial { System::Imperial } else { System::Metric };
    let v: f64 = kani::any();
    kani::assume(v.is_finite() && v.abs() <= 1e9);
    let from = conv.all_units[k].clone();
    let r = conv.convert_to_best(ConvertValue::Number(v), &from, system);
    match &r {
        Ok((ConvertValue::Number(out), unit)) => {
            // the unit comes from the target system's designated list
            let lo = if to_imperial { 2 } else { 0 };
            let is0 = Arc::ptr_eq(unit, &conv.all_units[lo]);
            let is1 = Arc::ptr_eq(unit, &conv.all_units[lo + 1]);
            assert!(is0 || is1);
            // and the amount is the kernel's conversion into exactly that unit
            let want = conv.convert_f64(v, &from, unit);
            assert!(out.to_bits() == want.to_bits());
            kani::cover!(is1);
            kani::cover!(is0);
        }
        _ => assert!(false),
    }
    std::mem::forget(r);
    std::mem::forget(from);
    std::mem::forget(conv);
}

#[kani::proof]
#[kani::unwind(6)]
#[kani::stub(std::hash::RandomState::new, rs_stub)]
#[kani::stub(alloc::fmt::format, fmt_stub)]
#[kani::stub(crate::convert::convert_f64, conv_marker)]
fn c09_convert_to_best_range() {
    let conv = small_converter();
    let k: usize = kani::any();
    kani::assume(k < 4);
    let to_imperial: bool = kani::any();
    let system = if to_imperial { System::Imperial } else { System::Metric };
    let s: f64 = kani::any();
    let e: f64 = kani::any();
    kani::assume(s.is_finite() && s.abs() <= 1e9 && e.is_finite() && e.abs() <= 1e9);
    let from = conv.all_units[k].clone();
    let r = conv.convert_to_best(ConvertValue::Range(s..=e), &from, system);
    match &r {
        Ok((ConvertValue::Range(out), unit)) => {
            let lo = if to_imperial { 2 } else { 0 };
            assert!(Arc::ptr_eq(unit, &conv.all_units[lo]) || Arc::ptr_eq(unit, &conv.all_units[lo + 1]));
            assert!(out.start().to_bits() == conv.convert_f64(s, &from, unit).to_bits());
            assert!(out.end().to_bits() == conv.convert_f64(e, &from, unit).to_bits());
        }
        _ => assert!(false),
    }
    kani::cover!(r.is_ok());
    std::mem::forget(r);
    std::mem::forget(from);
    std::mem::forget(conv);
}

/// an empty designated list is an error, not a panic
#[kani::proof]
#[kani::unwind(6)]
#[kani::stub(std::hash::RandomState::new, rs_stub)]
#[kani::stub(alloc::fmt::format, fmt_stub)]
fn c09_convert_to_best_empty_list() {
    let mut conv = Converter::empty();
    conv.all_units = vec![mk_unit(any_ratio(), Some(System::Metric), PhysicalQuantity::Mass)];
    let v: f64 = kani::any();
    kani::assume(v.is_finite());
    let from = conv.all_units[0].clone();
    let r = conv.convert_to_best(ConvertValue::Number(v), &from, System::Imperial);
    assert!(r.is_err());
    std::mem::forget(r);
    std::mem::forget(from);
    std::mem::forget(conv);
}

// NOTE: a harness through `ScaledQuantity::convert` (unitless / unknown unit => error, quantity unchanged) makes
// kani-compiler 0.68 abort with an internal error (intrinsics.rs:243, reached through the #[tracing::instrument]
// expansion of convert_impl); that part of C09 is therefore not covered.

#[kani::proof]
#[kani::unwind(6)]
#[kani::stub(std::hash::RandomState::new, rs_stub)]
#[kani::stub(alloc::fmt::format, fmt_stub)]
#[kani::stub(crate::convert::convert_f64, conv_marker)]
fn c09_convert_twin_reach() {
    let conv = small_converter();
    let v: f64 = kani::any();
    kani::assume(v.is_finite() && v.abs() <= 1e9);
    let from = conv.all_units[0].clone();
    let r = conv.convert_to_best(ConvertValue::Number(v), &from, System::Imperial);
    if r.is_ok() {
        assert!(false);
    }
    std::mem::forget(r);
    std::mem::forget(from);
    std::mem::forget(conv);
}

// ---------------------------------------------------------------------------------------------
// fit_fraction: re-expressing a quantity as a fraction in one of the target system's designated units keeps
// the amount: the new value is the approximation of convert(value -> new unit) and, for a range, the end is
// convert(end -> new unit) (approximated if possible, plain otherwise).  HashMap-backed configuration lookups
// are stubbed (hashbrown's SIMD probing makes kani-compiler 0.68 abort), the kernels are markers.

static mut CFG_ENABLED: [bool; 3] = [false; 3];
static mut APPROX_LOG: [(u64, bool, u32); 6] = [(0, false, 0); 6];
static mut APPROX_CALLS: usize = 0;

fn cfg_of(id: usize) -> FractionsConfig {
    FractionsConfig { enabled: unsafe { CFG_ENABLED[id % 3] }, accuracy: 0.05, max_denominator: 4, max_whole: 10 }
}
fn fractions_config_stub(_f: &Fractions, _system: Option<System>, _quantity: PhysicalQuantity, unit_id: usize) -> FractionsConfig {
    cfg_of(unit_id)
}
fn converter_fractions_config_stub(c: &Converter, unit: &Unit) -> FractionsConfig {
    // identify the unit by its (distinct) ratio
    let mut i = 0;
    while i < c.all_units.len() {
        if c.all_units[i].ratio.to_bits() == unit.ratio.to_bits() {
            return cfg_of(i);
        }
        i += 1;
    }
    cfg_of(0)
}
/// Number::new_approx marker: nondeterministically declines or returns a fraction tagged with the call index;
/// every call is logged (argument bits, outcome, tag)
fn approx_stub(value: f64, _accuracy: f32, _max_den: u8, _max_whole: u32) -> Option<Number> {
    let k = unsafe { APPROX_CALLS };
    let accept: bool = kani::any();
    let den: u32 = kani::any();
    kani::assume(den >= 1 && den <= 4);
    unsafe {
        if k < 6 {
            APPROX_LOG[k] = (value.to_bits(), accept, den);
        }
        APPROX_CALLS = k + 1;
    }
    if accept {
        Some(Number::Fraction { whole: k as u32, num: 1, den, err: 0.0 })
    } else {
        None
    }
}

fn try_fraction_stub(_q: &mut Quantity<Value>, _converter: &Converter) -> bool {
    false
}

fn sym_unit(sym: &'static str, ratio: f64, system: System) -> Arc<Unit> {
    Arc::new(Unit {
        names: Vec::new(),
        symbols: vec![Arc::from(sym)],
        aliases: Vec::new(),
        ratio,
        difference: 0.0,
        physical_quantity: PhysicalQuantity::Volume,
        system: Some(system),
    })
}

fn fit_fraction_case(is_range: bool) {
    let mut conv = Converter::empty();
    let (r0, r1, r2) = (any_ratio(), any_ratio(), any_ratio());
    kani::assume(r0.to_bits() != r1.to_bits() && r1.to_bits() != r2.to_bits() && r0.to_bits() != r2.to_bits());
    conv.all_units = vec![sym_unit("a", r0, System::Imperial), sym_unit("b", r1, System::Imperial), sym_unit("c", r2, System::Imperial)];
    conv.best[PhysicalQuantity::Volume] = BestConversionsStore::BySystem {
        metric: BestConversions(Vec::new()),
        imperial: BestConversions(vec![(any_th(), 1), (any_th(), 2)]),
    };
    unsafe {
        CFG_ENABLED = [kani::any(), kani::any(), kani::any()];
    }
    let s: f64 = kani::any();
    let e: f64 = kani::any();
    kani::assume(s.is_finite() && e.is_finite());
    let value = if is_range {
        Value::Range { start: Number::Regular(s), end: Number::Regular(e) }
    } else {
        Value::Number(Number::Regular(s))
    };
    let from = conv.all_units[0].clone();
    let mut q = Quantity::new(value, Some(String::from("a")));
    let r = q.fit_fraction(&from, Some(System::Imperial), &conv);
    let calls = unsafe { APPROX_CALLS };
    match r {
        Ok(true) => {
            // the new unit is one of the designated imperial units
            let to_b = q.unit() == Some("b");
            let to_c = q.unit() == Some("c");
            assert!(to_b || to_c);
            let new_id = if to_b { 1 } else { 2 };
            assert!(unsafe { CFG_ENABLED[new_id] });
            let new_unit = conv.all_units[new_id].clone();
            let want_start = conv_marker(s, &from, &new_unit).to_bits();
            // the start (or the number) is an accepted approximation of the converted value
            let (start_num, end_num) = match q.value() {
                Value::Number(n) => (*n, None),
                Value::Range { start, end } => (*start, Some(*end)),
                Value::Text(_) => {
                    assert!(false);
                    return;
                }
            };
            assert!(end_num.is_some() == is_range);
            match start_num {
                Number::Fraction { whole, den, .. } => {
                    let k = whole as usize;
                    assert!(k < calls && k < 6);
                    let (arg, accepted, d) = unsafe { APPROX_LOG[k] };
                    assert!(accepted && d == den && arg == want_start);
                }
                Number::Regular(_) => assert!(false),
            }
            if let Some(end) = end_num {
                let want_end = conv_marker(e, &from, &new_unit).to_bits();
                match end {
                    Number::Fraction { whole, den, .. } => {
                        let k = whole as usize;
                        assert!(k < calls && k < 6);
                        let (arg, accepted, d) = unsafe { APPROX_LOG[k] };
                        assert!(accepted && d == den && arg == want_end);
                    }
                    // not expressible as a fraction: the converted end as a plain number
                    Number::Regular(x) => assert!(x.to_bits() == want_end),
                }
            }
            std::mem::forget(new_unit);
        }
        Ok(false) => {
            // nothing fitted: the quantity is untouched
            assert!(q.unit() == Some("a"));
            match q.value() {
                Value::Number(Number::Regular(x)) => assert!(!is_range && x.to_bits() == s.to_bits()),
                Value::Range { start: Number::Regular(x), end: Number::Regular(y) } => {
                    assert!(is_range && x.to_bits() == s.to_bits() && y.to_bits() == e.to_bits())
                }
                _ => assert!(false),
            }
        }
        Err(_) => assert!(false),
    }
    kani::cover!(matches!(r, Ok(true)));
    kani::cover!(matches!(r, Ok(false)));
    std::mem::forget(r);
    std::mem::forget(q);
    std::mem::forget(from);
    std::mem::forget(conv);
}

#[kani::proof]
#[kani::unwind(8)]
#[kani::stub(std::hash::RandomState::new, rs_stub)]
#[kani::stub(alloc::fmt::format, fmt_stub)]
#[kani::stub(crate::convert::convert_f64, conv_marker)]
#[kani::stub(Fractions::config, fractions_config_stub)]
#[kani::stub(Converter::fractions_config, converter_fractions_config_stub)]
#[kani::stub(Number::new_approx, approx_stub)]
#[kani::stub(Quantity::<Value>::try_fraction, try_fraction_stub)]
fn c09_fit_fraction_number() {
    fit_fraction_case(false)
}

#[kani::proof]
#[kani::unwind(8)]
#[kani::stub(std::hash::RandomState::new, rs_stub)]
#[kani::stub(alloc::fmt::format, fmt_stub)]
#[kani::stub(crate::convert::convert_f64, conv_marker)]
#[kani::stub(Fractions::config, fractions_config_stub)]
#[kani::stub(Converter::fractions_config, converter_fractions_config_stub)]
#[kani::stub(Number::new_approx, approx_stub)]
#[kani::stub(Quantity::<Value>::try_fraction, try_fraction_stub)]
fn c09_fit_fraction_range() {
    fit_fraction_case(true)
}

// NOTE: harnesses through ScaledQuantity::convert / fit / try_fraction / Converter::fractions_config are not
// possible with kani-compiler 0.68: every function carrying #[tracing::instrument] makes it abort with an
// internal error (intrinsics.rs:243) as soon as it is reachable.  Those four functions are instrumented;
// fit_fraction (above) and Converter::convert / convert_to_best are not.  The failure cases of
// ScaledQuantity::convert (unitless / unknown unit / text => error, quantity unchanged) are therefore not decided.
