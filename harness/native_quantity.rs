// compiled as `cooklang::quantity::verif_hooks` under --cfg cooklang_verif (scratch copy only)
use super::*;

/// The process-wide fraction lookup table exactly as the real constructor builds it.
pub fn fraction_table() -> Vec<(i16, (u8, u8))> {
    TABLE.0.clone()
}

pub fn fraction_lookup(val: f64, max_den: u8) -> Option<(u8, u8)> {
    TABLE.lookup(val, max_den)
}

pub fn fraction_consts() -> (f64, Vec<u8>) {
    (FractionLookupTable::FIX_RATIO, FractionLookupTable::DENOMS.to_vec())
}

pub fn round_float_pub(n: f64) -> f64 {
    round_float(n)
}
