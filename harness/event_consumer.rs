// Kani harnesses compiled as `crate::analysis::event_consumer::verif_kani`.
// C06: an intermediate-preparation reference resolves to an existing earlier step of the current section
// or to an existing earlier section, from an arbitrary valid collector state (one inductive step).
use super::*;
use crate::parser::{IntermediateData, IntermediateRefMode, IntermediateTargetKind};

fn rs_stub() -> std::hash::RandomState {
    unsafe { std::mem::transmute::<[u64; 2], std::hash::RandomState>([1, 2]) }
}
fn fmt_stub(_a: std::fmt::Arguments<'_>) -> String {
    String::new()
}

fn collector<'c>(converter: &'c Converter) -> RecipeCollector<'static, 'c> {
    RecipeCollector {
        input: "",
        extensions: Extensions::all(),
        converter,
        parse_options: ParseOptions::default(),
        content: ScalableRecipe {
            metadata: Default::default(),
            sections: Default::default(),
            ingredients: Default::default(),
            cookware: Default::default(),
            timers: Default::default(),
            inline_quantities: Default::default(),
            data: crate::scale::Servings(None),
        },
        current_section: Section::default(),
        define_mode: DefineMode::All,
        duplicate_mode: DuplicateMode::New,
        old_style_metadata: true,
        old_style_metadata_used: vec![],
        ctx: SourceReport::empty(),
        locations: Default::default(),
        step_counter: 1,
    }
}

/// state: `NC` content entries of the current section (each symbolically a step or a text paragraph),
/// `NS` finished sections; reference data fully symbolic (val >= 0 as the parser guarantees).
fn resolve<const NC: usize, const NS: usize>() -> bool {
    let conv = Converter::empty();
    let mut col = collector(&conv);
    let shape: [bool; NC] = kani::any();
    let mut i = 0;
    while i < NC {
        if shape[i] {
            col.current_section.content.push(Content::Step(Step { items: Vec::new(), number: col.step_counter }));
            col.step_counter += 1;
        } else {
            col.current_section.content.push(Content::Text(String::new()));
        }
        i += 1;
    }
    let mut s = 0;
    while s < NS {
        col.content.sections.push(Section::new(Some(String::new())));
        s += 1;
    }
    let val: i16 = kani::any();
    kani::assume(val >= 0);
    let rel: bool = kani::any();
    let sec: bool = kani::any();
    let data = IntermediateData {
        ref_mode: if rel { IntermediateRefMode::Relative } else { IntermediateRefMode::Number },
        target_kind: if sec { IntermediateTargetKind::Section } else { IntermediateTargetKind::Step },
        val,
    };
    let r = col.resolve_intermediate_ref(Located::new(data, Span::new(0, 0)));
    // reference semantics, computed independently
    let mut steps = [0usize; NC];
    let mut nsteps = 0usize;
    let mut j = 0;
    while j < NC {
        if shape[j] {
            steps[nsteps] = j;
            nsteps += 1;
        }
        j += 1;
    }
    let v = val as usize;
    let want: Option<usize> = if v == 0 {
        None
    } else if !sec {
        if v <= nsteps {
            Some(if rel { steps[nsteps - v] } else { steps[v - 1] })
        } else {
            None
        }
    } else if v <= NS {
        Some(if rel { NS - v } else { v - 1 })
    } else {
        None
    };
    let ok = match &r {
        Ok(relation) => {
            match relation.references_to() {
                Some((idx, target)) => {
                    let is_step = target == IngredientReferenceTarget::Step;
                    assert!(is_step == !sec);
                    if is_step {
                        // addresses an existing earlier step of the same section
                        assert!(idx < NC && shape[idx]);
                    } else {
                        // addresses an existing earlier section
                        assert!(idx < NS);
                    }
                    assert!(want == Some(idx));
                }
                None => assert!(false),
            }
            true
        }
        Err(_) => {
            // refused exactly when the reference is 0 or out of range
            assert!(want.is_none());
            false
        }
    };
    std::mem::forget(r);
    std::mem::forget(col);
    std::mem::forget(conv);
    ok
}

#[kani::proof]
#[kani::unwind(7)]
#[kani::stub(alloc::fmt::format, fmt_stub)]
#[kani::stub(std::hash::RandomState::new, rs_stub)]
fn c06_intermediate_ref_c3_s2() {
    let ok = resolve::<3, 2>();
    kani::cover!(ok);
    kani::cover!(!ok);
}

#[kani::proof]
#[kani::unwind(7)]
#[kani::stub(alloc::fmt::format, fmt_stub)]
#[kani::stub(std::hash::RandomState::new, rs_stub)]
fn c06_intermediate_ref_c0_s0() {
    let ok = resolve::<0, 0>();
    kani::cover!(!ok);
}

#[kani::proof]
#[kani::unwind(7)]
#[kani::stub(alloc::fmt::format, fmt_stub)]
#[kani::stub(std::hash::RandomState::new, rs_stub)]
fn c06_intermediate_ref_c4_s3() {
    let ok = resolve::<4, 3>();
    kani::cover!(ok);
    kani::cover!(!ok);
}

#[kani::proof]
#[kani::unwind(7)]
#[kani::stub(alloc::fmt::format, fmt_stub)]
#[kani::stub(std::hash::RandomState::new, rs_stub)]
fn c06_intermediate_ref_twin_reach() {
    let ok = resolve::<2, 1>();
    if ok {
        assert!(false);
    }
}
