use super::*;

pub fn linear_scale_pub(value: crate::quantity::Value, factor: f64) -> Option<crate::quantity::Value> {
    linear_scale(value, factor).ok()
}
