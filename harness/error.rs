// Kani harnesses compiled as `crate::error::verif_kani`.
// C03 kernel: the report colour generator never indexes out of bounds, from any valid state, for any number of calls.
use super::*;

#[kani::proof]
#[kani::unwind(20)]
fn c03_color_generator_index() {
    let start: usize = kani::any();
    kani::assume(start < ColorGenerator::COLORS.len());
    let mut g = ColorGenerator(start);
    let n: usize = kani::any();
    kani::assume(n <= 16);
    let mut i = 0;
    while i < n {
        let _ = g.next();
        // invariant: the state stays a valid index
        assert!(g.0 < ColorGenerator::COLORS.len());
        i += 1;
    }
}
