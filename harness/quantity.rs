// Kani harnesses compiled as `crate::quantity::verif_kani` (child module of `quantity`).
// C12 (fraction approximation), C10 (Value::try_add / GroupedValue), shared by C03.
use super::*;

/// The table the real `FractionLookupTable::new()` builds on the current tree, dumped natively by
/// /verif/native at the start of the run (building it inside CBMC costs > 40 GB).
fn literal_table() -> FractionLookupTable {
    FractionLookupTable(include!(concat!(env!("COOKLANG_VERIF_GEN"), "/fraction_table.rs")))
}

fn supported_den(d: u32) -> bool {
    // the denominators the documentation of `new_approx` lists
    d == 2 || d == 3 || d == 4 || d == 5 || d == 8 || d == 10 || d == 16 || d == 32 || d == 64
}

/// K-1: contract of `lookup` that Engine M assumes: a result is a proper fraction with a supported
/// denominator not above `max_den`; all indexing stays in bounds (Kani's built-in checks).
#[kani::proof]
#[kani::unwind(40)]
fn c12_lookup_contract() {
    let t = literal_table();
    let v: f64 = kani::any();
    kani::assume(v >= 1e-10 && v < 1.0);
    let max_den: u8 = kani::any();
    kani::assume(max_den <= 64);
    let r = t.lookup(v, max_den);
    if let Some((n, d)) = r {
        assert!(d <= max_den);
        assert!(n >= 1 && n < d);
        assert!(supported_den(d as u32));
    }
    kani::cover!(r.is_some());
    kani::cover!(r.is_none());
    std::mem::forget(t);
}

fn table_stub() -> FractionLookupTable {
    literal_table()
}

/// K-2: structure of `new_approx`, bit-precise, every input and every parameter set.
#[kani::proof]
#[kani::unwind(40)]
#[kani::stub(FractionLookupTable::new, table_stub)]
fn c12_new_approx_structure() {
    let v: f64 = kani::any();
    let acc: f32 = kani::any();
    kani::assume(acc >= 0.0 && acc <= 1.0);
    let max_den: u8 = kani::any();
    kani::assume(max_den <= 64);
    let max_whole: u32 = kani::any();
    let r = Number::new_approx(v, acc, max_den, max_whole);
    // non-positive and non-finite inputs are declined
    if !(v > 0.0) || !v.is_finite() {
        assert!(r.is_none());
    }
    match r {
        None => {}
        Some(Number::Regular(x)) => {
            // "integers within the limit come back as plain numbers": exactly the input
            assert!(x == v);
            assert!(v.trunc() <= max_whole as f64);
        }
        Some(Number::Fraction { whole, num, den, err }) => {
            assert!(whole <= max_whole);
            assert!(err.is_finite());
            if num == 0 {
                assert!(den == 1 && whole >= 1);
            } else {
                assert!(den <= max_den as u32 && num < den && supported_den(den));
            }
            kani::cover!(num > 0);
            kani::cover!(num == 0);
        }
    }
    // integers within the limit come back as plain numbers
    if v > 0.0 && v.is_finite() && v.fract() == 0.0 && v <= max_whole as f64 && v < 4294967295.0 {
        assert!(matches!(r, Some(Number::Regular(_))));
    }
}

#[kani::proof]
#[kani::unwind(40)]
#[kani::stub(FractionLookupTable::new, table_stub)]
fn c12_new_approx_twin_reach() {
    let v: f64 = kani::any();
    kani::assume(v > 0.3 && v < 0.35);
    let r = Number::new_approx(v, 0.1, 4, 10);
    if let Some(Number::Fraction { num, .. }) = r {
        if num > 0 {
            assert!(false);
        }
    }
}

/// documented panics: accuracy outside [0,1] or max_den > 64 must panic, nothing else may
#[kani::proof]
#[kani::unwind(40)]
#[kani::stub(FractionLookupTable::new, table_stub)]
#[kani::should_panic]
fn c12_new_approx_bad_max_den_panics() {
    let v: f64 = kani::any();
    let max_den: u8 = kani::any();
    kani::assume(max_den > 64);
    let _ = Number::new_approx(v, 0.5, max_den, 10);
}
