use super::*;

pub fn convert_raw(value: f64, from: &Unit, to: &Unit) -> f64 {
    convert_f64(value, from, to)
}
