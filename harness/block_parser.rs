// Kani harnesses compiled as `crate::parser::block_parser::verif_kani`.
// C03 kernel: assembling the text of a run of tokens never panics (offset / escape / fragment-order assertions,
// debug ones included) and slices the input only inside its bounds.
use super::*;
use crate::lexer::TokenKind;

const KINDS: [TokenKind; 6] = [
    TokenKind::Word,
    TokenKind::Whitespace,
    TokenKind::Newline,
    TokenKind::LineComment,
    TokenKind::BlockComment,
    TokenKind::Escaped,
];

/// N adjacent tokens from offset 0; each kind symbolic; the first N-1 tokens are 2 bytes long, the last one has a
/// symbolic length within what the lexer can emit for its kind (an escaped token is `\` plus any character:
/// 1 byte at end of input, else 2..=5; newline 1..=2; others 1..=4).  Input: 16 ASCII bytes (every offset is a
/// char boundary).  Symbolic lengths for every token exhaust CBMC's memory (> 60 GB), hence this shape.
fn text_of_tokens<const N: usize>() {
    const BUF: &str = "aaaaaaaaaaaaaaaa";
    let mut toks = [Token { kind: TokenKind::Word, span: Span::new(0, 0) }; N];
    let mut at = 0usize;
    let mut i = 0;
    while i < N {
        let k: usize = kani::any();
        kani::assume(k < KINDS.len());
        let kind = KINDS[k];
        let len: usize = if i + 1 < N {
            2
        } else {
            let l: usize = kani::any();
            match kind {
                TokenKind::Escaped => kani::assume(l >= 1 && l <= 5),
                TokenKind::Newline => kani::assume(l >= 1 && l <= 2),
                _ => kani::assume(l >= 1 && l <= 4),
            }
            l
        };
        toks[i] = Token { kind, span: Span::new(at, at + len) };
        at += len;
        i += 1;
    }
    let mut events = VecDeque::new();
    let bp = BlockParser::new(&toks, BUF, &mut events, Extensions::all());
    let t = bp.text(0, &toks);
    let sp = t.span();
    assert!(sp.end() <= at);
    // a last token that contributes text (word, blank, escaped character) ends the text exactly where it ends
    match toks[N - 1].kind {
        TokenKind::Word | TokenKind::Whitespace => assert!(sp.end() == at),
        TokenKind::Escaped => assert!(sp.end() == at || toks[N - 1].span.len() == 1),
        _ => {}
    }
    std::mem::forget(t);
    std::mem::forget(events);
}

#[kani::proof]
#[kani::unwind(8)]
fn c03_block_text_1_token() {
    text_of_tokens::<1>()
}
