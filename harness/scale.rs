// Kani harnesses compiled as `crate::scale::verif_kani` (child module of `scale`).
// C08: the whole-recipe plumbing of ScalableRecipe::scale / default_scale (iterators, unzip, fit) on a
// recipe of fixed shape; the per-value arithmetic is decided by Engine M, so linear_scale is a marker here.
use super::*;
use crate::quantity::Number;

fn rs_stub() -> std::hash::RandomState {
    unsafe { std::mem::transmute::<[u64; 2], std::hash::RandomState>([1, 2]) }
}
fn fmt_stub(_a: std::fmt::Arguments<'_>) -> String {
    String::new()
}

const MARK: f64 = 42.0;
static mut CALLS: u32 = 0;
static mut LAST_F: u64 = 0;
static mut LAST_V: u64 = 0;

fn linear_marker(value: Value, factor: f64) -> Result<Value, ScaleError> {
    unsafe {
        CALLS += 1;
        LAST_F = factor.to_bits();
    }
    match value {
        Value::Number(n) => {
            unsafe {
                LAST_V = n.value().to_bits();
            }
            Ok(Value::Number(Number::Regular(MARK)))
        }
        Value::Range { .. } => Ok(Value::Range { start: Number::Regular(MARK), end: Number::Regular(MARK) }),
        v @ Value::Text(_) => Err(TextValueError(v).into()),
    }
}

/// `fit` re-expresses a quantity in a better unit of the same system; that it keeps the amount is C09's claim.
/// It is cut here (with the empty converter it is the identity anyway) because everything below
/// `ScaledQuantity::convert` trips an internal error of kani-compiler 0.68 (intrinsics.rs:243).
fn fit_stub(_q: &mut Quantity<Value>, _converter: &Converter) -> Result<(), crate::convert::ConvertError> {
    Ok(())
}

fn recipe(ing_value: ScalableValue, cw: Option<ScalableValue>, timer: Option<ScalableValue>) -> ScalableRecipe {
    ScalableRecipe {
        metadata: Default::default(),
        sections: Vec::new(),
        ingredients: vec![Ingredient {
            name: String::new(),
            alias: None,
            quantity: Some(Quantity { value: ing_value, unit: None }),
            note: None,
            reference: None,
            relation: crate::model::IngredientRelation::definition(Vec::new(), true),
            modifiers: crate::parser::Modifiers::empty(),
        }],
        cookware: vec![Cookware {
            name: String::new(),
            alias: None,
            quantity: cw,
            note: None,
            relation: crate::model::ComponentRelation::Definition { referenced_from: Vec::new(), defined_in_step: true },
            modifiers: crate::parser::Modifiers::empty(),
        }],
        timers: vec![Timer { name: None, quantity: timer.map(|v| Quantity { value: v, unit: None }) }],
        inline_quantities: Vec::new(),
        data: Servings(None),
    }
}

fn regular(v: &Value) -> Option<u64> {
    match v {
        Value::Number(Number::Regular(x)) => Some(x.to_bits()),
        _ => None,
    }
}

// NOTE: the analogous harness through `ScalableRecipe::scale` (map + unzip into two Vecs) was tried and
// removed: CBMC reports "dereference failure: pointer invalid" inside the (Vec, Vec)::extend specialisation
// and assertion failures that do not reproduce when Kani's concrete values are played back natively - a
// modelling artefact of the engine, not of the code.  `scale()`'s plumbing is therefore not decided here;
// the per-component functions it calls are decided by Engine M.

#[kani::proof]
#[kani::unwind(10)]
#[kani::stub(std::hash::RandomState::new, rs_stub)]
#[kani::stub(alloc::fmt::format, fmt_stub)]
#[kani::stub(crate::scale::linear_scale, linear_marker)]
fn c08_recipe_default_scale_plumbing() {
    let a: f64 = kani::any();
    let b: f64 = kani::any();
    kani::assume(a.is_finite() && b.is_finite());
    let linear: bool = kani::any();
    let iv = Value::Number(Number::Regular(a));
    let r = recipe(
        if linear { ScalableValue::Linear(iv) } else { ScalableValue::Fixed(iv) },
        Some(ScalableValue::Fixed(Value::Number(Number::Regular(b)))),
        None,
    );
    let out = r.default_scale();
    assert!(out.is_default_scaled());
    assert!(out.ingredients.len() == 1 && out.cookware.len() == 1 && out.timers.len() == 1);
    assert!(out.ingredients[0].quantity.as_ref().map(|q| regular(q.value())) == Some(Some(a.to_bits())));
    assert!(out.cookware[0].quantity.as_ref().map(regular) == Some(Some(b.to_bits())));
    assert!(out.timers[0].quantity.is_none());
    assert!(unsafe { CALLS } == 0);
    kani::cover!(linear);
    std::mem::forget(out);
}

