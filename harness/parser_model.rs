// Kani harnesses compiled as `crate::parser::model::verif_kani`.
// C10: which components are listed (shopping list filter): hidden and reference-only components are not.
use super::*;

#[kani::proof]
fn c10_should_be_listed() {
    let bits: u16 = kani::any();
    let m = Modifiers::from_bits_truncate(bits);
    let hidden_or_ref = m.contains(Modifiers::HIDDEN) || m.contains(Modifiers::REF);
    assert!(m.should_be_listed() == !hidden_or_ref);
    kani::cover!(m.should_be_listed());
    kani::cover!(!m.should_be_listed());
}
