import os
"""Registry of Kani harnesses: which property, which tier, the kernel driven, the stated bound.

budget_s = per-harness wall cap (3x the time measured on the unchanged tree, at least 300 s).
"""
RS = "std::hash::RandomState::new -> constant key pair (getrandom syscall not modelled; maps stay empty)"
FMT = "alloc::fmt::format -> empty String (message text is not the subject)"

M = "metadata::verif_kani::"
HARNESSES = {
    "C13": [
        dict(name=M + "c13_compact_h10", tier="quick", kernel="metadata::parse_common_time_format",
             bound="layout D{10}h, every digit symbolic, unwind 12", budget_s=450,
             obligation="Some(t) => t == 60*h (u64 reference); None only if the total exceeds u32; no overflow"),
        dict(name=M + "c13_compact_m10", tier="quick", kernel="metadata::parse_common_time_format",
             bound="layout D{10}m, unwind 12", budget_s=450,
             obligation="Some(t) => t == m; None only if m exceeds u32"),
        dict(name=M + "c13_compact_h8_m2", tier="quick", kernel="metadata::parse_common_time_format",
             bound="layout D{8}hD{2}m, unwind 13", budget_s=450,
             obligation="Some(t) => t == 60*h+m; None only on u32 overflow; no arithmetic overflow"),
        dict(name=M + "c13_compact_h9_m2", tier="thorough", kernel="metadata::parse_common_time_format",
             bound="layout D{9}hD{2}m, unwind 14", budget_s=900,
             obligation="Some(t) => t == 60*h+m; None only on u32 overflow; no arithmetic overflow"),
        dict(name=M + "c13_compact_h2_m3", tier="quick", kernel="metadata::parse_common_time_format",
             bound="layout D{2}hD{3}m, unwind 8", budget_s=300, obligation="Some(60*h+m) always"),
        dict(name=M + "c13_compact_twin_reach", tier="quick", kernel="metadata::parse_common_time_format", twin=True,
             bound="layout D{2}hD{3}m", budget_s=300, obligation="vacuity twin: final assert!(false) must be reached"),
        dict(name=M + "c13_compact_malformed5", tier="quick", kernel="metadata::parse_common_time_format",
             bound="5 bytes over {h,m,digit,' ',x}, unwind 7", budget_s=300,
             obligation="Some iff the kind string matches D+h | D+m | D+hD+m"),
        dict(name=M + "c13_unit_spelling_1", tier="quick", kernel="metadata::hard_coded_time_units", stubs=[FMT], budget_s=300,
         bound="unit = 1 symbolic lower-case letter, value 120", obligation="Ok(120*factor) iff the spelling is one of the 15 documented ones (s/sec/secs/second/seconds = 1/60, m/min/minute/minutes = 1, h/hour/hours = 60, d/day/days = 1440)"),
    dict(name=M + "c13_unit_spelling_2", tier="quick", kernel="metadata::hard_coded_time_units", stubs=[FMT], budget_s=300,
         bound="unit = 2 symbolic lower-case letters", obligation="always refused"),
    dict(name=M + "c13_unit_spelling_3", tier="quick", kernel="metadata::hard_coded_time_units", stubs=[FMT], budget_s=300,
         bound="unit = 3 symbolic lower-case letters", obligation="documented spelling <=> accepted with its factor"),
    dict(name=M + "c13_unit_spelling_4", tier="quick", kernel="metadata::hard_coded_time_units", stubs=[FMT], budget_s=300,
         bound="unit = 4 symbolic lower-case letters", obligation="documented spelling <=> accepted with its factor"),
    dict(name=M + "c13_unit_spelling_5", tier="quick", kernel="metadata::hard_coded_time_units", stubs=[FMT], budget_s=300,
         bound="unit = 5 symbolic lower-case letters", obligation="documented spelling <=> accepted with its factor"),
    dict(name=M + "c13_unit_spelling_6", tier="quick", kernel="metadata::hard_coded_time_units", stubs=[FMT], budget_s=300,
         bound="unit = 6 symbolic lower-case letters", obligation="documented spelling <=> accepted with its factor"),
    dict(name=M + "c13_unit_spelling_7", tier="quick", kernel="metadata::hard_coded_time_units", stubs=[FMT], budget_s=300,
         bound="unit = 7 symbolic lower-case letters", obligation="documented spelling <=> accepted with its factor"),
    dict(name=M + "c13_locale_2byte_char", tier="quick", kernel="metadata::value_as_locale", stubs=[FMT], budget_s=300,
         bound="one two-byte UTF-8 character (U+0080..U+07FF)", obligation="refused: not a two-letter code"),
    dict(name=M + "c13_locale_5_2byte_dialect", tier="quick", kernel="metadata::value_as_locale", stubs=[FMT], budget_s=300,
         bound="`en_C` / `C_en` with C a two-byte character", obligation="refused"),
    dict(name=M + "c13_servings_number", tier="quick", kernel="metadata::value_as_servings", stubs=[FMT], budget_s=300,
         bound="YAML number, any u32", obligation="exactly that number"),
    dict(name=M + "c13_servings_seq3", tier="quick", kernel="metadata::value_as_servings", stubs=[FMT], budget_s=600,
         bound="YAML list of 3 numbers, any u32 each", obligation="the numbers in order; refused iff any two are equal"),
    dict(name=M + "c13_servings_seq4", tier="thorough", kernel="metadata::value_as_servings", stubs=[FMT], budget_s=900,
         bound="YAML list of 4 numbers", obligation="the numbers in order; refused iff any two are equal"),
    dict(name=M + "c13_recipe_time_total", tier="quick", kernel="metadata::RecipeTime::total", budget_s=300,
         bound="any Total(u32) or Composed{Option<u32>, Option<u32>}", obligation="total == prep + cook; no overflow panic, no wrapped sum"),
    dict(name=M + "c13_locale_2", tier="quick", kernel="metadata::value_as_locale", stubs=[FMT],
             bound="2 printable ASCII bytes", budget_s=300, obligation="Ok iff both alphabetic"),
        dict(name=M + "c13_locale_3", tier="quick", kernel="metadata::value_as_locale", stubs=[FMT],
             bound="3 printable ASCII bytes", budget_s=300, obligation="always Err"),
        dict(name=M + "c13_locale_5", tier="quick", kernel="metadata::value_as_locale", stubs=[FMT],
             bound="5 printable ASCII bytes", budget_s=300, obligation="Ok iff ll_CC with alphabetic l,C"),
    ],
}


Q = "quantity::verif_kani::"
TABLE = "quantity::FractionLookupTable::new -> literal table dumped natively from the real constructor"
HARNESSES["C12"] = [
    dict(name=Q + "c12_lookup_contract", tier="quick", kernel="quantity::FractionLookupTable::lookup",
         bound="val in [1e-10,1), max_den in 0..=64, table = the real constructor's output, unwind 40", budget_s=300,
         obligation="Some((n,d)) => 1 <= n < d <= max_den and d is a documented denominator; no out-of-bounds index"),
    dict(name=Q + "c12_new_approx_structure", tier="quick", kernel="quantity::Number::new_approx", stubs=[TABLE],
         bound="every f64 (finite or not), every f32 accuracy in [0,1], max_den 0..=64, every u32 max_whole", budget_s=300,
         obligation="declines non-positive/non-finite; Regular(x) => x == value; Fraction => whole<=max_whole, "
                    "num==0 => den==1 & whole>=1, num>0 => num<den<=max_den & den documented; integers within the limit => Regular"),
    dict(name=Q + "c12_new_approx_twin_reach", tier="quick", kernel="quantity::Number::new_approx", stubs=[TABLE], twin=True,
         bound="value in (0.3,0.35)", budget_s=300, obligation="vacuity twin: a Fraction with num>0 is reachable"),
    dict(name=Q + "c12_new_approx_bad_max_den_panics", tier="quick", kernel="quantity::Number::new_approx", stubs=[TABLE],
         bound="max_den in 65..=255, any value", budget_s=300, obligation="documented panic (should_panic harness)"),
]


CV = "convert::verif_kani::"
MARK = "convert::convert_f64 -> bit-mix marker of (value, from.ratio, to.ratio) (the kernel itself is decided by Engine M)"
CONV4 = "converter = 4 volume units (2 metric, 2 imperial), ratios in [1e-3,1e5], thresholds in [0,1e6], all symbolic"
HARNESSES["C09"] = [
    dict(name=CV + "c09_convert_to_best_number", tier="quick", kernel="convert::Converter::convert_to_best", stubs=[RS, FMT, MARK],
         bound=CONV4 + "; |value| <= 1e9; unwind 6", budget_s=600,
         obligation="result unit is one of the target system's designated units; value == convert_f64(value, from, that unit)"),
    dict(name=CV + "c09_convert_to_best_range", tier="quick", kernel="convert::Converter::convert_to_best", stubs=[RS, FMT, MARK],
         bound=CONV4 + "; range ends |x| <= 1e9", budget_s=600,
         obligation="both range ends converted into the selected unit of the target system"),
    dict(name=CV + "c09_convert_to_best_empty_list", tier="quick", kernel="convert::Converter::convert_to_best", stubs=[RS, FMT],
         bound="one unit, empty designated lists", budget_s=300, obligation="Err(BestUnitNotFound), no panic"),
    dict(name=CV + "c09_fit_fraction_number", tier="quick", kernel="convert::ScaledQuantity::fit_fraction",
         stubs=[RS, FMT, MARK, "convert::Fractions::config / Converter::fractions_config -> symbolic enabled flag per unit (HashMap lookups; fractions_config is tracing-instrumented)",
                "quantity::Number::new_approx -> nondeterministic accept/decline marker logging its argument (the approximation itself is C12)",
                "ScaledQuantity::try_fraction -> false (tracing-instrumented; only reached with no target system)"],
         bound="3 imperial volume units with symbolic distinct ratios, 2 of them designated with symbolic thresholds; number value, any finite f64; unwind 8", budget_s=600,
         obligation="Ok(true) => new unit is a designated, fraction-enabled unit and the value is an accepted approximation of convert_f64(value, from, new unit); "
                    "Ok(false) => quantity untouched; never Err for numeric values"),
    dict(name=CV + "c09_fit_fraction_range", tier="quick", kernel="convert::ScaledQuantity::fit_fraction",
         stubs=[RS, FMT, MARK, "Fractions::config / Converter::fractions_config / Number::new_approx / try_fraction as in c09_fit_fraction_number"],
         bound="same converter; range value with any finite ends", budget_s=600,
         obligation="as above for the start; the end is convert_f64(end, from, new unit) - approximated when accepted, that plain number otherwise"),
    dict(name=CV + "c09_convert_twin_reach", tier="quick", kernel="convert::Converter::convert_to_best", stubs=[RS, FMT], twin=True,
         bound=CONV4, budget_s=600, obligation="vacuity twin"),
]


SC = "scale::verif_kani::"
FITS = "ScaledQuantity::fit -> no-op (identity with the empty converter; amount preservation of fit is C09's claim; kani-compiler ICE below convert_impl)"
LMARK = "scale::linear_scale -> marker recording its arguments (the product itself is decided by Engine M)"
HARNESSES["C08"] = [
    dict(name=CV + "c09_fit_fraction_range", tier="quick", kernel="convert::ScaledQuantity::fit_fraction (the fit step after scaling)",
         stubs=[RS, FMT, MARK, "Fractions::config / Converter::fractions_config / Number::new_approx / try_fraction: see C09"],
         bound="3 imperial volume units, symbolic ratios/thresholds; range value with any finite ends; unwind 8", budget_s=600,
         obligation="fitting a (scaled) range into another unit converts both ends into that unit: the amount is kept"),
    dict(name=SC + "c08_recipe_default_scale_plumbing", tier="quick", kernel="scale::ScalableRecipe::default_scale", stubs=[RS, FMT, LMARK],
         bound="recipe shape fixed: 1 ingredient (Linear|Fixed number), 1 cookware (Fixed number), 1 timer without quantity; numbers symbolic finite; unwind 10", budget_s=300, obligation="written values verbatim, reported as default scaling, linear_scale never called"),
]


EC = "analysis::event_consumer::verif_kani::"
HARNESSES["C06"] = [
    dict(name=EC + "c06_intermediate_ref_c3_s2", tier="quick", kernel="analysis::RecipeCollector::resolve_intermediate_ref", stubs=[RS, FMT],
         bound="current section: 3 content entries, each symbolically step|text; 2 finished sections; val in 0..=i16::MAX, both modes, both targets; unwind 7",
         budget_s=900,
         obligation="Ok => the index addresses an existing earlier step of the current section (or an existing earlier section) and equals an "
                    "independently computed reference (number: k-th step / section k; relative: k steps / sections back); Err exactly when 0 or out of range; no overflow"),
    dict(name=EC + "c06_intermediate_ref_c0_s0", tier="quick", kernel="analysis::RecipeCollector::resolve_intermediate_ref", stubs=[RS, FMT],
         bound="empty section, no finished sections", budget_s=600, obligation="every reference is refused, nothing panics"),
    dict(name=EC + "c06_intermediate_ref_c4_s3", tier="thorough", kernel="analysis::RecipeCollector::resolve_intermediate_ref", stubs=[RS, FMT],
         bound="4 content entries, 3 finished sections", budget_s=2400, obligation="same as c3_s2"),
    dict(name=EC + "c06_intermediate_ref_twin_reach", tier="quick", kernel="analysis::RecipeCollector::resolve_intermediate_ref", stubs=[RS, FMT], twin=True,
         bound="2 content entries, 1 finished section", budget_s=600, obligation="vacuity twin: an accepted reference is reachable"),
]


HARNESSES["C10"] = [
    dict(name="parser::model::verif_kani::c10_should_be_listed", tier="quick", kernel="parser::Modifiers::should_be_listed", budget_s=300,
         bound="every u16 bit pattern", obligation="a component is listed iff it is neither hidden nor a reference"),
    dict(name=CV + "c09_fit_fraction_range", tier="quick", kernel="convert::ScaledQuantity::fit_fraction (fit of grouped totals)",
         stubs=[RS, FMT, MARK, "Fractions::config / Converter::fractions_config / Number::new_approx / try_fraction: see C09"],
         bound="3 imperial volume units, symbolic ratios/thresholds; range value with any finite ends; unwind 8", budget_s=600,
         obligation="fitting a grouped total (a range) into another unit converts both ends into that unit: no amount is lost or invented"),
]

BP = "parser::block_parser::verif_kani::"


def _reuse(prop, short):
    for e in HARNESSES[prop]:
        if e["name"].endswith("::" + short):
            d = dict(e)
            d["tier"] = "quick"
            return d
    raise KeyError(short)


HARNESSES["C03"] = [
    dict(name=BP + "c03_block_text_1_token", tier="quick", kernel="parser::BlockParser::text / Text::append_fragment", budget_s=600,
         bound="one token of symbolic kind (word, whitespace, newline, comments, escaped) and symbolic length within what the lexer emits for it; 16-byte ASCII input; unwind 8",
         obligation="no panic / failed (debug) assertion: offset, escape-length and fragment-order assertions hold; slices stay in bounds"),
    dict(name="verif_kani::c03_extension_flag_algebra", tier="quick", kernel="Extensions (bitflags)", budget_s=300,
         bound="every u32 bit pattern", obligation="truncation keeps exactly the known bits; INTERMEDIATE_PREPARATIONS implies COMPONENT_MODIFIERS; COMPAT = all - TIMER_REQUIRES_TIME"),
    dict(name="error::verif_kani::c03_color_generator_index", tier="quick", kernel="error::ColorGenerator::next", budget_s=300,
         bound="any valid start state, up to 16 calls; unwind 20", obligation="index always in bounds"),
    _reuse("C13", "c13_compact_h10"), _reuse("C13", "c13_compact_h8_m2"), _reuse("C13", "c13_compact_malformed5"),
    _reuse("C13", "c13_recipe_time_total"),
    _reuse("C12", "c12_new_approx_structure"), _reuse("C12", "c12_lookup_contract"),
    _reuse("C06", "c06_intermediate_ref_c3_s2"),
    _reuse("C09", "c09_convert_to_best_number"), _reuse("C09", "c09_fit_fraction_range"),
]


def select(prop, tier):
    out = []
    for e in HARNESSES.get(prop, []):
        if e["tier"] == "quick" or tier == "thorough":
            out.append(e)
    flt = os.environ.get("VERIF_HARNESS")      # development aid: run only harnesses whose name contains this text
    if flt:
        out = [e for e in out if flt in e["name"]]
    return out
