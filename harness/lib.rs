// Kani harnesses compiled as `crate::verif_kani` (crate root).
// Extension flag algebra (a closed kernel of C02, reported with C03): every bit pattern is handled without
// panic, INTERMEDIATE_PREPARATIONS always implies COMPONENT_MODIFIERS, COMPAT is everything but TIMER_REQUIRES_TIME.
use super::*;

#[kani::proof]
fn c03_extension_flag_algebra() {
    let bits: u32 = kani::any();
    let e = Extensions::from_bits_truncate(bits);
    // no unknown bit survives truncation, known bits are kept
    assert!(e.bits() & !Extensions::all().bits() == 0);
    assert!(e.bits() == bits & Extensions::all().bits());
    if e.contains(Extensions::INTERMEDIATE_PREPARATIONS) {
        assert!(e.contains(Extensions::COMPONENT_MODIFIERS));
    }
    assert!(Extensions::COMPAT.bits() == Extensions::all().bits() & !Extensions::TIMER_REQUIRES_TIME.bits());
    let other: u32 = kani::any();
    let o = Extensions::from_bits_truncate(other);
    // contains is monotone under union
    if e.contains(o) {
        let more: u32 = kani::any();
        assert!((e | Extensions::from_bits_truncate(more)).contains(o));
    }
    match Extensions::from_bits(bits) {
        Some(x) => assert!(x.bits() == bits),
        None => assert!(bits & !Extensions::all().bits() != 0),
    }
}
