"""Engine M, part 1: parse rustc's `-Zunpretty=mir` text and symbolically execute loop-free bodies.

The dump is regenerated from the scratch copy of /repo on every run.  Only a documented subset of MIR
is understood; anything else inside a kernel we are asked to encode raises `Unsupported`, which the
checks turn into exit 2 (never into a pass).

Symbolic execution enumerates the paths of the (acyclic) CFG.  Each finished path is an `Outcome`:
path condition (list of SMT booleans), kind (return / panic), returned value.
Floating point has two semantics (see smt.py): `real` = reals with one bounded relative rounding
error per rounded operation, `fp` = bit-precise IEEE-754.
"""
import re, os, subprocess, glob


class Unsupported(Exception):
    pass


# ----------------------------------------------------------------------------------------------
# parsing

def split_top(s, sep=","):
    """split on sep at bracket depth 0"""
    out, depth, cur, i = [], 0, "", 0
    instr = False
    while i < len(s):
        c = s[i]
        if instr:
            cur += c
            if c == "\\":
                cur += s[i + 1]
                i += 1
            elif c == '"':
                instr = False
        elif c == '"':
            instr = True
            cur += c
        elif c == "'" and (s[i + 2:i + 3] == "'" or (s[i + 1:i + 2] == "\\" and s[i + 3:i + 4] == "'")):
            n = 3 if s[i + 2:i + 3] == "'" else 4          # a char literal such as ',' or '\n' (not a lifetime)
            cur += s[i:i + n]
            i += n
            continue
        elif c in "([{<":
            if c == "<" and (i > 0 and s[i - 1] == " " or s[i + 1:i + 2] in (" ", "=")) and not s[:i].endswith(("const ", "move ", "copy ")):
                cur += c  # comparison, not generic bracket (does not occur inside MIR operands anyway)
            else:
                depth += 1
                cur += c
        elif c in ")]}>":
            if c == ">" and i > 0 and s[i - 1] in "-=":
                cur += c  # -> or =>
            else:
                depth -= 1
                cur += c
        elif c == sep and depth == 0:
            out.append(cur.strip())
            cur = ""
        else:
            cur += c
        i += 1
    if cur.strip():
        out.append(cur.strip())
    return out


def strip_turbofish(path):
    """remove every `::<...>` generic-argument group (balanced) from a path"""
    out, i = "", 0
    while i < len(path):
        if path.startswith("::<", i):
            d, j = 0, i + 2
            while j < len(path):
                if path[j] == "<":
                    d += 1
                elif path[j] == ">" and path[j - 1] not in "-=":
                    d -= 1
                    if d == 0:
                        break
                j += 1
            i = j + 1
        else:
            out += path[i]
            i += 1
    return out


def parse_call(t):
    """`[dest = ]callee(args) -> [return: bbN, unwind ...]` or `... -> unwind ...` (diverging).
    The callee path may itself contain parentheses (tuple types), so the argument list is the last
    balanced group before ` -> `."""
    m = re.match(r"^(.*\)) -> (?:\[return: (bb\d+), unwind.*\]|unwind .*|bb\d+)$", t)
    if not m:
        return None
    head, ret_bb = m.group(1), m.group(2)
    depth, i = 0, len(head) - 1
    while i >= 0:
        if head[i] == ")":
            depth += 1
        elif head[i] == "(":
            depth -= 1
            if depth == 0:
                break
        i -= 1
    if i < 0:
        return None
    argtxt = head[i + 1:-1]
    pre = head[:i]
    dm = re.match(r"^(\(?[_\w.*: ()]*?\)?) = (.*)$", pre)
    dest, callee = (dm.group(1), dm.group(2)) if dm else (None, pre)
    return dest, callee.strip(), argtxt, ret_bb


class Block:
    def __init__(self, name, cleanup):
        self.name, self.cleanup = name, cleanup
        self.stmts = []
        self.term = None


class Fn:
    def __init__(self, name, sig):
        self.name, self.sig = name, sig
        self.args = []       # [(local, type)]
        self.ret = None
        self.locals = {}     # local -> type
        self.blocks = {}
        self.text = []


RE_FN = re.compile(r"^(?:fn|const|static) (.+?)(?:\((.*)\))?(?: -> (.+?))? (?:= )?\{$")
RE_LET = re.compile(r"^\s*let (?:mut )?(_\d+): (.+);$")
RE_BB = re.compile(r"^\s*(bb\d+)( \(cleanup\))?: \{$")


class MirDump:
    def __init__(self, text):
        self.fns = {}
        self._parse(text)

    def _parse(self, text):
        cur = None
        blk = None
        for ln in text.splitlines():
            if cur is None:
                if (ln.startswith("fn ") or ln.startswith("const ")) and ln.endswith("{"):
                    m = re.match(r"^fn (.+?)\((.*)\) -> (.+) \{$", ln)
                    if m:
                        cur = Fn(m.group(1), ln)
                        for a in split_top(m.group(2)):
                            am = re.match(r"^(_\d+): (.+)$", a)
                            if am:
                                cur.args.append((am.group(1), am.group(2)))
                                cur.locals[am.group(1)] = am.group(2)
                        cur.ret = m.group(3)
                        cur.locals["_0"] = cur.ret
                    else:
                        m = re.match(r"^const (.+?promoted\[\d+\]): (.+) = \{$", ln)
                        if not m:
                            m = re.match(r"^const ((?:.+::)?[A-Z][A-Z0-9_]*): (.+) = \{$", ln)      # associated / module constants
                        if m:
                            cur = Fn(m.group(1), ln)
                            cur.ret = m.group(2)
                        else:
                            m = re.match(r"^fn (.+?)\((.*)\) \{$", ln)
                            if m:
                                cur = Fn(m.group(1), ln)
                                cur.ret = "()"
                                for a in split_top(m.group(2)):
                                    am = re.match(r"^(_\d+): (.+)$", a)
                                    if am:
                                        cur.args.append((am.group(1), am.group(2)))
                                        cur.locals[am.group(1)] = am.group(2)
                continue
            if ln == "}":
                self.fns.setdefault(cur.name, []).append(cur)
                cur, blk = None, None
                continue
            cur.text.append(ln)
            m = RE_LET.match(ln)
            if m and blk is None:
                cur.locals[m.group(1)] = m.group(2)
                continue
            m = RE_BB.match(ln)
            if m:
                blk = Block(m.group(1), bool(m.group(2)))
                cur.blocks[blk.name] = blk
                continue
            if blk is not None:
                s = ln.strip()
                if s == "}":
                    blk = None
                    continue
                if not s or s.startswith("//"):
                    continue
                blk.stmts.append(s.rstrip(";"))
        for fl in self.fns.values():
            for f in fl:
                for b in f.blocks.values():
                    if b.stmts:
                        b.term = b.stmts.pop()

    def find(self, pattern):
        """unique function whose path matches the regex"""
        hits = [f for name, fl in self.fns.items() if re.search(pattern, name) for f in fl]
        if len(hits) != 1:
            raise Unsupported("MIR function %r: %d matches %s" % (pattern, len(hits), [h.name for h in hits][:5]))
        return hits[0]

    def find_impl_method(self, method, arg_types_re):
        """`<impl at file:line>::method` whose signature matches the given regex (impl blocks are
        identified by source position in the dump, which moves whenever the file is edited)"""
        hits = []
        for name, fl in self.fns.items():
            if name.endswith("::" + method) or name == method:
                for f in fl:
                    if re.search(arg_types_re, f.sig):
                        hits.append(f)
        if len(hits) != 1:
            raise Unsupported("MIR method %s / %s: %d matches" % (method, arg_types_re, len(hits)))
        return hits[0]


def dump_mir(repo_dir, target_dir, out_path):
    env = dict(os.environ)
    env["CARGO_NET_OFFLINE"] = "true"
    # touch so that cargo re-runs rustc even when the target dir is warm
    os.utime(os.path.join(repo_dir, "src", "lib.rs"))
    with open(out_path, "w") as out, open(out_path + ".err", "w") as err:
        p = subprocess.run(["cargo", "+nightly", "rustc", "--offline", "--lib", "--target-dir", target_dir, "--",
                            "-Zunpretty=mir", "-C", "debug-assertions=off", "-C", "overflow-checks=on"],
                           cwd=repo_dir, stdout=out, stderr=err, env=env)
    if p.returncode != 0 or os.path.getsize(out_path) < 1000:
        raise Unsupported("MIR dump failed (see %s.err)" % out_path)
    return MirDump(open(out_path).read())


# ----------------------------------------------------------------------------------------------
# Rust type declarations (field / variant order) from the current source

class DeclMap:
    """name -> declaration, disambiguated by module path when two modules declare the same name"""

    def __init__(self):
        self.by_name = {}

    def add(self, name, modpath, decl):
        self.by_name.setdefault(name, []).append((modpath, decl))

    def setdefault(self, name, decl):
        if name not in self.by_name:
            self.by_name[name] = [("std", decl)]

    def __contains__(self, name):
        return name in self.by_name

    def lookup(self, name, hint=""):
        c = self.by_name[name]
        if len(c) == 1:
            return c[0][1]
        hint = hint.strip(":")
        exact = [d for m, d in c if m == hint]
        if exact:
            return exact[0]
        suffix = [d for m, d in c if hint and (m.endswith("::" + hint) or m.endswith(hint))]
        if len(suffix) == 1:
            return suffix[0]
        # a re-exported path of another crate (`cooklang::Item` for `cooklang::model::Item`): the shallowest module of that crate
        if hint and "::" not in hint:
            inside = sorted([(m, d) for m, d in c if m.startswith(hint + "::")], key=lambda md: md[0].count("::"))
            if inside:
                return inside[0][1]
        # MIR prints the shortest unambiguous path: an un-prefixed or shorter path means the shallower module
        c2 = sorted(c, key=lambda md: md[0].count("::"))
        if hint:
            pref = [d for m, d in c2 if m.split("::")[-1] == hint.split("::")[-1]]
            if pref:
                return pref[0]
        return c2[0][1]

    def __getitem__(self, name):
        return self.lookup(name)


class TypeDecls:
    """struct / enum declarations scraped from the crate source: MIR projections are positional,
    aggregate constructors are by name, so the order has to come from the declaration."""

    def __init__(self, src_dir, extra=()):
        """extra: [(module prefix, source dir)] of further crates whose types appear in the dump (e.g. a dependency of the crate)"""
        self.structs, self.enums = DeclMap(), DeclMap()
        for prefix, sdir in [("", src_dir)] + list(extra):
            for path in sorted(glob.glob(os.path.join(sdir, "**", "*.rs"), recursive=True)):
                rel = os.path.relpath(path, sdir)[:-3]
                mod = "::".join([x for x in [prefix] if x] + [x for x in rel.split(os.sep) if x not in ("mod", "lib")])
                self._scan(open(path).read(), mod)
        self.enums.setdefault("Option", [("None", []), ("Some", ["0"])])
        self.enums.setdefault("Result", [("Ok", ["0"]), ("Err", ["0"])])
        self.enums.setdefault("ControlFlow", [("Continue", ["0"]), ("Break", ["0"])])

    @staticmethod
    def _strip(body):
        body = re.sub(r"//[^\n]*", "", body)
        body = re.sub(r"/\*.*?\*/", "", body, flags=re.S)
        # attributes (possibly with nested brackets)
        out, i = "", 0
        while i < len(body):
            if body[i] == "#" and body[i + 1:i + 2] == "[":
                d, i = 0, i + 1
                while True:
                    if body[i] == "[":
                        d += 1
                    elif body[i] == "]":
                        d -= 1
                        if d == 0:
                            i += 1
                            break
                    i += 1
            else:
                out += body[i]
                i += 1
        return out

    def _scan(self, text, mod):
        text = self._strip(text)
        for m in re.finditer(r"\b(struct|enum)\s+(\w+)\s*(<[^{;(]*>)?\s*(where[^{]*)?\{", text):
            kind, name = m.group(1), m.group(2)
            i, d = m.end(), 1
            while d and i < len(text):
                d += {"{": 1, "}": -1}.get(text[i], 0)
                i += 1
            body = text[m.end():i - 1]
            if kind == "struct":
                self.structs.add(name, mod, [re.match(r"(?:pub(?:\([^)]*\))?\s+)?(\w+)\s*:", f.strip()).group(1)
                                              for f in split_top(body) if re.match(r"(?:pub(?:\([^)]*\))?\s+)?(\w+)\s*:", f.strip())])
            else:
                variants = []
                for v in split_top(body):
                    v = v.strip()
                    vm = re.match(r"(\w+)\s*(\{(.*)\}|\((.*)\))?", v, re.S)
                    if not vm:
                        continue
                    if vm.group(3) is not None:
                        fields = [re.match(r"(?:pub\s+)?(\w+)\s*:", f.strip()).group(1) for f in split_top(vm.group(3)) if f.strip()]
                    elif vm.group(4) is not None:
                        fields = [str(k) for k in range(len(split_top(vm.group(4))))]
                    else:
                        fields = []
                    variants.append((vm.group(1), fields))
                self.enums.add(name, mod, variants)
        for m in re.finditer(r"\bstruct\s+(\w+)\s*(<[^{;(]*>)?\s*\(([^;]*)\)\s*;", text):
            self.structs.add(m.group(1), mod, [str(k) for k in range(len(split_top(m.group(3))))])


def base_type_name(ty):
    """`quantity::Value` -> Value ; `std::option::Option<(u8, u8)>` -> Option ; `&convert::Unit` -> Unit"""
    ty = ty.strip()
    while ty.startswith("&"):
        ty = ty[1:].strip()
        if ty.startswith("mut "):
            ty = ty[4:]
    ty = re.sub(r"<.*$", "", ty)
    return ty.split("::")[-1]


# ----------------------------------------------------------------------------------------------
# symbolic values

class SV:
    """scalar: sort in f64 f32 bool str u8 u16 u32 u64 usize i8 i16 i32 i64 isize"""
    def __init__(self, sort, expr):
        self.sort, self.expr = sort, expr

    def __repr__(self):
        return "SV(%s,%s)" % (self.sort, self.expr)


class Agg:
    """struct / tuple: fields by positional index (str)"""
    def __init__(self, ty, fields):
        self.ty, self.fields = ty, dict(fields)

    def __repr__(self):
        return "Agg(%s,%r)" % (self.ty, self.fields)


class Enum:
    """enum value: `discr` is an SV int (concrete or symbolic); `variants` name -> Agg of that variant's fields"""
    def __init__(self, ty, discr, variants, names):
        self.ty, self.discr, self.variants, self.names = ty, discr, variants, names

    def __repr__(self):
        return "Enum(%s,%s,%r)" % (self.ty, self.discr, self.variants)


class VecVal:
    """Vec / slice of concrete length holding symbolic elements"""
    def __init__(self, items):
        self.items = list(items)

    def __repr__(self):
        return "VecVal(%r)" % (self.items,)


class MutRef:
    """`&mut place` of the current activation; resolved against the environment at use"""
    def __init__(self, fn, place):
        self.fn, self.place = fn, place

    def __repr__(self):
        return "MutRef(%s)" % self.place


class ElemRef:
    """`&mut vec[idx]` produced by IndexMut"""
    def __init__(self, vecref, idx):
        self.vecref, self.idx = vecref, idx


class ProjRef:
    """`&mut base.path` handed back by an inlined callee that projects into one of its reference parameters
    (e.g. `fn modifiers_mut(&mut self) -> &mut Modifiers { &mut self.modifiers }`): valid in the caller's activation"""
    def __init__(self, base, path):
        self.base, self.path = base, list(path)     # path: [("f", idx) | ("v", variant)]

    def __repr__(self):
        return "ProjRef(%r, %s)" % (self.base, self.path)


def place_path(place):
    """`((*_1).6: T)` -> ("_1", [("f","6")]);  `((((*_1).4: T) as Definition).0: U)` -> ("_1", [("f","4"),("v","Definition"),("f","0")])"""
    place = place.strip()
    m = re.match(r"^\(\*(_\d+)\)$|^(_\d+)$", place)
    if m:
        return (m.group(1) or m.group(2)), []
    m = re.match(r"^\((.*)\.(\d+): (.+)\)$", place)
    if m:
        root, path = place_path(m.group(1))
        return (root, path + [("f", m.group(2))]) if root else (None, None)
    m = re.match(r"^\((.*) as (?:variant#)?(\w+)\)$", place)
    if m:
        root, path = place_path(m.group(1))
        return (root, path + [("v", m.group(2))]) if root else (None, None)
    if place.startswith("(*") and place.endswith(")"):
        return place_path(place[2:-1])
    return None, None


class LocalCell:
    """a `&mut T` whose referent lives in a named slot of the *current* activation (used to pass `&mut` arguments and
    closure captures by value-result: the slot is filled on entry and read back on return)"""
    def __init__(self, key):
        self.key = key

    def __repr__(self):
        return "LocalCell(%s)" % self.key


class MapVal:
    """HashMap with abstract keys: a list of (key token, value) entries; key equality against a probe key is symbolic"""
    def __init__(self, entries):
        self.entries = list(entries)


class MapElemRef:
    """`&mut V` returned by HashMap::get_mut"""
    def __init__(self, mapref, idx):
        self.mapref, self.idx = mapref, idx


class BoxCell:
    """`Box::<[T; N]>::new_uninit()` as produced by the `vec![a, b]` expansion: written once through a raw pointer, then
    turned into a Vec.  Projections and pointer casts of it are the cell itself."""
    def __init__(self):
        self.content = None


class Opaque:
    def __init__(self, what, args=()):
        self.what, self.args = what, list(args)

    def __repr__(self):
        return "Opaque(%s)" % self.what


class Outcome:
    def __init__(self, kind, pc, value=None, msg=None, trace=None):
        self.kind, self.pc, self.value, self.msg, self.trace = kind, list(pc), value, msg, trace or []
        self.events = []


INT_BITS = {"u8": (8, False), "u16": (16, False), "u32": (32, False), "u64": (64, False), "usize": (64, False),
            "i8": (8, True), "i16": (16, True), "i32": (32, True), "i64": (64, True), "isize": (64, True)}


def contradicts(pc, cond):
    """cheap syntactic infeasibility test: `(= x 1)` after `(= x 0)`, or `(= x 0)` after `(not (= x 0))`"""
    m = re.match(r"^\(= ([A-Za-z_]\w*) (-?\d+)\)$", cond)
    if m:
        for c in pc:
            m2 = re.match(r"^\(= ([A-Za-z_]\w*) (-?\d+)\)$", c)
            if m2 and m2.group(1) == m.group(1) and m2.group(2) != m.group(2):
                return True
            if c == "(not %s)" % cond:
                return True
    m = re.match(r"^\(not (\(= [A-Za-z_]\w* -?\d+\))\)$", cond)
    if m and m.group(1) in pc:
        return True
    # any atom against its own negation
    neg = cond[5:-1] if (cond.startswith("(not ") and cond.endswith(")")) else "(not %s)" % cond
    if neg in pc:
        return True
    return False


def fork_env(env):
    e = dict(env)
    if "__events" in e:
        e["__events"] = list(e["__events"])
    return e


class OpenAgg(Agg):
    """aggregate whose untracked fields read as opaque values (e.g. `self` of a large struct)"""
    pass


class _AnyFn:
    name = "<projection>"


class Interp:
    """Path-enumerating symbolic executor for loop-free MIR."""

    def __init__(self, dump, decls, sem, inline=(), models=None, max_paths=4000):
        self.dump, self.decls, self.sem = dump, decls, sem
        self.inline = list(inline)           # [(regex on callee text, Fn)]
        self.models = models or {}
        self.max_paths = max_paths
        self.npaths = 0

    # -- entry
    def run(self, fn, args, pc=()):
        env = {}
        for i, ((loc, ty), v) in enumerate(zip(fn.args, args)):
            if ty.startswith("&mut ") and not isinstance(v, (MutRef, ElemRef, MapElemRef, LocalCell, ProjRef)):
                # a `&mut T` parameter refers to a slot of this activation: copies of the reference (e.g. a closure
                # capturing `self`) then alias the same slot
                env["arg#%d" % i] = v
                env[loc] = LocalCell("arg#%d" % i)
            else:
                env[loc] = v
        outs = []
        self._exec(fn, "bb0", env, list(pc), outs, [], 0)
        return outs

    # -- execution
    def _exec(self, fn, bb, env, pc, outs, trace, depth):
        while True:
            # loops are allowed when the models make them terminate (iteration over a container of concrete
            # length); anything else hits the path-length cap below and is reported as an encoder error
            if len(trace) > 600:
                raise Unsupported("%s: path longer than 600 blocks - loop?" % fn.name)
            blk = fn.blocks[bb]
            for st in blk.stmts:
                self._stmt(fn, st, env, pc)
            t = blk.term
            trace = trace + [bb]
            if t == "return":
                o = Outcome("return", pc, env.get("_0"), trace=trace)
                o.events = list(env.get("__events", []))
                o.env = env
                outs.append(o)
                self._count()
                return
            if t in ("unreachable", "resume"):
                outs.append(Outcome("unreachable", pc, trace=trace))
                return
            m = re.match(r"^goto -> (bb\d+)$", t)
            if m:
                bb = m.group(1)
                continue
            m = re.match(r"^switchInt\((.*)\) -> \[(.*)\]$", t)
            if m:
                v = self._operand(fn, m.group(1), env)
                if isinstance(v, Opaque) and getattr(self, "lenient", False):
                    v = self.lazy_scalar(v, self.place_type(fn, re.sub(r"^(move|copy) ", "", m.group(1).strip())))
                targets = [x.strip() for x in m.group(2).split(",")]
                taken_conds = []
                for tg in targets:
                    k, dest = [y.strip() for y in tg.split(":")]
                    if k == "otherwise":
                        cond = self.sem.and_([self.sem.not_(c) for c in taken_conds]) if taken_conds else "true"
                    else:
                        cond = self.sem.int_eq_const(v, int(k))
                        taken_conds.append(cond)
                    cond = self.sem.simplify(cond)
                    if cond == "false" or contradicts(pc, cond):
                        continue
                    env2 = fork_env(env)
                    self._exec(fn, dest, env2, pc + ([cond] if cond != "true" else []), outs, trace, depth)
                return
            m = re.match(r"^assert\((.*?), (\".*\")(?:, .*)?\) -> \[success: (bb\d+), unwind.*\]$", t)
            if m:
                condtxt = m.group(1).strip()
                if re.search(r"misaligned pointer dereference|null pointer dereference", m.group(2)):
                    bb = m.group(3)       # rustc's pointer-validity instrumentation (debug builds): memory safety is not examined here
                    continue
                neg = condtxt.startswith("!")
                v = self._operand(fn, condtxt[1:] if neg else condtxt, env)
                if isinstance(v, Opaque) and getattr(self, "lenient", False):
                    v = self.lazy_scalar(v, "bool")
                ok = self.sem.not_(v.expr) if neg else v.expr
                ok = self.sem.simplify(ok)
                if ok != "true":
                    outs.append(Outcome("panic", pc + [self.sem.not_(ok)], msg=m.group(2), trace=trace))
                    self._count()
                if ok == "false":
                    return
                pc = pc + ([ok] if ok != "true" else [])
                bb = m.group(3)
                continue
            m = re.match(r"^drop\((.*)\) -> \[return: (bb\d+), unwind.*\]$", t)
            if m:
                bb = m.group(2)
                continue
            # calls
            m = parse_call(t)
            if m:
                dest, callee, argtxt, ret_bb = m
                args = [self._operand(fn, a, env) for a in split_top(argtxt)] if argtxt.strip() else []
                if re.search(r"panicking::(panic|assert_failed|panic_fmt|panic_const)|panic$|^panic|unwrap_failed|expect_failed", callee):
                    msg = argtxt if "const \"" in argtxt else callee
                    outs.append(Outcome("panic", pc, msg=msg, trace=trace))
                    self._count()
                    return
                self.cur_env = env
                results = self._call(fn, callee, args, pc, depth)
                if ret_bb is None:
                    # diverging call that is not a recognised panic
                    outs.append(Outcome("panic", pc, msg="diverging call " + callee, trace=trace))
                    return
                if len(results) == 1 and results[0][0] is None:
                    if dest:
                        self._assign(fn, dest, results[0][1], env)
                    bb = ret_bb
                    continue
                arg_ops = split_top(argtxt) if argtxt.strip() else []
                for r in results:
                    extra_pc, val, kind, msg = r[:4]
                    wb = r[4] if len(r) > 4 else None
                    if any(contradicts(pc, c) for c in extra_pc):
                        continue
                    if kind == "panic":
                        outs.append(Outcome("panic", pc + extra_pc, msg=msg, trace=trace))
                        self._count()
                        continue
                    env2 = fork_env(wb["env"]) if (wb and "env" in wb) else fork_env(env)
                    if wb and "writeback" in wb:
                        for ev in wb.get("events", []):
                            env2.setdefault("__events", []).append(ev)
                        for i, newval in wb["writeback"]:
                            if newval is None:
                                continue
                            if i in wb["refs"]:
                                self.write_ref(wb["refs"][i], newval, env2)
                            elif i < len(arg_ops):
                                m2 = re.match(r"^(?:copy|move) (_\d+)$", arg_ops[i].strip())
                                if m2:
                                    env2[m2.group(1)] = newval
                    if dest:
                        self._assign(fn, dest, val, env2)
                    self._exec(fn, ret_bb, env2, pc + extra_pc, outs, trace, depth)
                return
            raise Unsupported("%s %s: terminator not understood: %s" % (fn.name, bb, t))

    def _count(self):
        self.npaths += 1
        if self.npaths > self.max_paths:
            raise Unsupported("path budget exceeded")

    def call_fn(self, target, args, depth=1):
        """run another MIR body on the given argument values; result in the multi-outcome call format"""
        return [r[:4] for r in self.call_fn_full(target, args, depth)]

    def call_fn_full(self, target, args, depth=1, cells=None):
        """as call_fn, returning outcomes also carry the callee's final parameter values and its events"""
        outs = []
        env = {}
        if cells:
            env.update(cells)
        for (loc, ty), v in zip(target.args, args):
            env[loc] = v
        self._exec(target, "bb0", env, [], outs, [], depth)
        res = []
        for o in outs:
            if o.kind == "return":
                finals = [o.env.get(loc) for (loc, ty) in target.args]
                res.append((o.pc, o.value, "return", None, finals, list(o.events), o.env))
            elif o.kind == "panic":
                res.append((o.pc, None, "panic", o.msg))
        return res

    def emit(self, what):
        """record a side effect (e.g. a pushed warning) on the current path"""
        self.cur_env.setdefault("__events", []).append(what)

    def closure_fn(self, closure_val):
        """MIR body of a closure value built by a `{closure@file:pos} { captures }` aggregate"""
        ty = closure_val.ty
        hits = [f for fl in self.dump.fns.values() for f in fl if f.args and f.args[0][1].replace("&mut ", "").replace("&", "") == ty]
        if len(hits) != 1:
            raise Unsupported("closure body for %s: %d candidates" % (ty, len(hits)))
        return hits[0]

    def _call(self, fn, callee, args, pc, depth):
        """returns [(None, value)] for a single deterministic result or [(extra_pc, value, kind, msg)]"""
        for tv, ty in getattr(self, "type_subst", {}).items():
            # running a generic body for one instantiation: `<C as Trait>::m` -> `<Type as Trait>::m`
            callee = re.sub(r"(?<![\w:])%s(?![\w:])" % re.escape(tv), ty, callee)
        if getattr(self, "lenient", False) and args and isinstance(args[0], Opaque):
            # a method of Option / Result on an abstract receiver: materialise the receiver first
            hm = re.match(r"^<?(?:std::option::|core::option::)?(Option)\b|^<?(?:std::result::|core::result::)?(Result)\b", callee)
            if hm:
                args = [self.lazy_enum(args[0], hm.group(1) or hm.group(2))] + list(args[1:])
        if any(re.search(pat, callee) for pat in getattr(self, "abstract_fns", ())):
            return [(None, self.uf_call(callee, args))]
        for pat, model in self.models.items():
            if re.search(pat, callee):
                r = model(self, args, callee)
                if isinstance(r, list):
                    return r
                return [(None, r)]
        for pat, target in self.inline:
            if re.search(pat, callee):
                if depth > 6:
                    raise Unsupported("inline depth")
                return self.call_inlined(target, args, depth)
        target = self.auto_resolve(callee, args)
        if target is not None:
            if depth > 8:
                raise Unsupported("inline depth")
            res = self.call_inlined(target, args, depth)
            if any(re.search(p, callee) for p in getattr(self, "merge_calls", ())):
                merged = self.merge_results(res)
                if merged is not None:
                    return merged
            return res
        if re.match(r"^<.* as Clone>::clone$", callee) and len(args) == 1:
            # no body in the dump = a derived / std Clone: symbolic values are immutable, a copy is the value itself
            a0 = args[0]
            return [(None, self.deref(a0, self.cur_env) if isinstance(a0, (MutRef, ElemRef, MapElemRef, LocalCell, ProjRef)) else a0)]
        m = re.match(r"^<(.*) as PartialEq(<.*>)?>::(eq|ne)$", callee)
        if m and len(args) == 2:
            # a comparison nothing else models (it only shows up when the code under analysis starts reading state the encoding
            # leaves abstract): an unconstrained but deterministic boolean - a sound over-approximation
            vals = [self.deref(a, self.cur_env) if isinstance(a, (MutRef, ElemRef, MapElemRef, LocalCell, ProjRef)) else a for a in args]
            if all(isinstance(v, Enum) and all(not var.fields for var in v.variants.values()) for v in vals):
                # field-less enums (derived PartialEq; `ne` is the trait's default method and has no body in the dump)
                e = self.sem.simplify("(= %s %s)" % (vals[0].discr.expr, vals[1].discr.expr))
                return [(None, SV("bool", e if m.group(3) == "eq" else self.sem.not_(e)))]
            memo = self.__dict__.setdefault("_abstract_eq", [])
            for x, y, b in memo:
                if (x is vals[0] and y is vals[1]) or (x is vals[1] and y is vals[0]):
                    break
            else:
                b = self.sem.fresh("Bool", "abs_eq")
                memo.append((vals[0], vals[1], b))
            return [(None, SV("bool", b if m.group(3) == "eq" else "(not %s)" % b))]
        if getattr(self, "lenient", False) and not any(isinstance(a, (MutRef, ElemRef, MapElemRef, LocalCell, ProjRef)) for a in args) \
                and not re.search(r"^<.* as (Iterator|IntoIterator|Extend<.*>|Write)>::|::(push|insert|extend|retain|remove|clear|sort\w*|drain|truncate)(::<.*>)?$", callee):
            # lenient mode: a call nothing models, without `&mut` arguments, is an uninterpreted function of its arguments
            return [(None, self.uf_call(callee, args))]
        raise Unsupported("%s: call to %s has no model and is not in the inline set" % (fn.name, callee))

    def call_inlined(self, target, args, depth):
        """inline a crate function.  `&mut` arguments use value-result semantics (sound because a &mut is unique):
        the referent is copied into a slot of the callee's activation, and the slot's final value is written back
        by the caller (through the original reference, or into the local that held the by-value model of it)."""
        refs, cells, args2 = {}, {}, []
        for i, a in enumerate(args):
            is_mut_param = i < len(target.args) and target.args[i][1].startswith("&mut ")
            if isinstance(a, (MutRef, ElemRef, MapElemRef, LocalCell, ProjRef)):
                refs[i] = a
                key = "arg#%d" % i
                cells[key] = self.deref(a, self.cur_env)
                args2.append(LocalCell(key))
            elif is_mut_param:
                key = "arg#%d" % i
                cells[key] = a
                args2.append(LocalCell(key))
            else:
                args2.append(a)
        res = self.call_fn_full(target, args2, depth + 1, cells=cells)
        out = []
        for r in res:
            if len(r) >= 5 and r[2] == "return":
                fenv = r[6] if len(r) > 6 else {}
                writeback = [(i, fenv.get("arg#%d" % i)) for i in range(len(args)) if ("arg#%d" % i) in cells]
                rv = self._rebase(r[1], refs)
                if isinstance(rv, MutRef) and rv.fn is target:
                    # a reference into one of the callee's reference parameters: re-express it in the caller's terms
                    root, path = place_path(rv.place)
                    idx = [i for i, (loc, _) in enumerate(target.args) if loc == root]
                    if root is None or not idx:
                        raise Unsupported("%s returns a reference to its own frame (%s)" % (target.name, rv.place))
                    if idx[0] in refs:
                        rv = ProjRef(refs[idx[0]], path)
                    else:
                        raise Unsupported("%s returns a projection of a by-value reference model" % target.name)
                out.append((r[0], rv, r[2], r[3], {"refs": refs, "writeback": writeback, "events": r[5] if len(r) > 5 else []}))
            else:
                out.append(r[:4])
        return out

    def _rebase(self, v, refs, depth=0):
        """references based on the callee's parameter slots (`arg#i`) become references based on what the caller passed"""
        if isinstance(v, LocalCell):
            m = re.match(r"^arg#(\d+)$", v.key)
            if m and int(m.group(1)) in refs:
                return refs[int(m.group(1))]
            return v
        if isinstance(v, ProjRef):
            b = self._rebase(v.base, refs, depth)
            return v if b is v.base else ProjRef(b, v.path)
        if depth > 4:
            return v
        if isinstance(v, Enum):
            changed, variants = False, {}
            for k, a in v.variants.items():
                a2 = self._rebase(a, refs, depth + 1)
                changed = changed or a2 is not a
                variants[k] = a2
            return Enum(v.ty, v.discr, variants, v.names) if changed else v
        if isinstance(v, Agg) and not isinstance(v, OpenAgg):
            changed, fields = False, {}
            for k, a in v.fields.items():
                a2 = self._rebase(a, refs, depth + 1)
                changed = changed or a2 is not a
                fields[k] = a2
            return Agg(v.ty, fields) if changed else v
        return v

    def run_closure_seq(self, clo, items, unpack=False):
        """call a closure once per item, in order, threading the caller's state: captured `&mut` references are passed by
        value-result, so mutations made by one call are seen by the next.  Returns [(pc, caller_env, [results])]."""
        clo = self.deref(clo, self.cur_env)
        f = self.closure_fn(clo)
        states = [([], fork_env(self.cur_env), [])]
        for item in items:
            nxt = []
            for pc, env, acc in states:
                saved = self.cur_env
                self.cur_env = env
                cells, fields, caps = {}, {}, {}
                for k, v in clo.fields.items():
                    if isinstance(v, (MutRef, ElemRef, MapElemRef, LocalCell, ProjRef)):
                        key = "cap#%s" % k
                        cells[key] = self.deref(v, env)
                        fields[k] = LocalCell(key)
                        caps[key] = v
                    else:
                        fields[k] = v
                clo2 = Agg(clo.ty, fields)
                unpacked = [] if (unpack and isinstance(item, Opaque)) else ([item.fields[x] for x in sorted(item.fields, key=int)] if unpack else [item])
                call_args = [clo2] + unpacked
                res = self.call_fn_full(f, call_args, 2, cells=cells)
                self.cur_env = saved
                for r in res:
                    if r[2] == "panic":
                        nxt.append((pc + r[0], env, acc + [("panic", r[3])]))
                        continue
                    env2 = fork_env(env)
                    fenv = r[6] if len(r) > 6 else {}
                    for key, ref in caps.items():
                        if key in fenv:
                            self.write_ref(ref, fenv[key], env2)
                    for ev in (r[5] if len(r) > 5 else []):
                        env2.setdefault("__events", []).append(ev)
                    nxt.append((pc + r[0], env2, acc + [("return", r[1])]))
            states = nxt
            if len(states) > 512:
                raise Unsupported("closure sequence: too many paths")
        return states

    def merge_results(self, res):
        """join the outcomes of a call into ONE symbolic value (ite over the path conditions) when they are all
        returns of a two-variant enum (Result / Option) with at most scalar payloads - keeps the caller's path
        count linear when a many-armed `match` (e.g. a unit table) is called repeatedly"""
        res = [r[:4] for r in res]
        if not res or any(k != "return" for (_, _, k, _) in res):
            return None
        vals = [v for (_, v, _, _) in res]
        if not all(isinstance(v, Enum) and re.match(r"^\d+$", v.discr.expr) for v in vals):
            return None
        ty, names = vals[0].ty, vals[0].names
        if any(v.ty != ty for v in vals) or len(names) != 2:
            return None
        conds = [self.sem.and_(pc) if pc else "true" for (pc, _, _, _) in res]
        discr = None
        variants = {}
        for idx, name in enumerate(names):
            members = [(c, v) for c, v in zip(conds, vals) if int(v.discr.expr) == idx]
            if not members:
                continue
            payloads = [v.variants[name].fields.get("0") for _, v in members]
            if all(isinstance(p, SV) for p in payloads):
                e = payloads[-1].expr
                for (c, _), p in list(zip(members, payloads))[-2::-1]:
                    e = "(ite %s %s %s)" % (c, p.expr, e)
                variants[name] = Agg(ty + "::" + name, {"0": SV(payloads[0].sort, self.sem.define("Real" if payloads[0].sort in ("f64", "f32") else "Int", e, "m"))})
            elif all(p is None for p in payloads):
                variants[name] = Agg(ty + "::" + name, {})
            else:
                variants[name] = Agg(ty + "::" + name, {"0": Opaque("merged payload")})
        first = [c for c, v in zip(conds, vals) if int(v.discr.expr) == 0]
        d = "(ite (or %s) 0 1)" % " ".join(first) if first else "1"
        if not [c for c, v in zip(conds, vals) if int(v.discr.expr) == 1]:
            d = "0"
        dname = self.sem.define("Int", d, "md") if not re.match(r"^\d+$", d) else d
        return [(None, Enum(ty, SV("isize", dname), variants, names))]

    def auto_resolve(self, callee, args):
        """a call to another function of this crate that has exactly one candidate body in the dump (same final
        path segment, same arity) is inlined - keeps the encoding alive when code is moved into a helper"""
        if callee.startswith(("std::", "core::", "alloc::", "<std::", "<core::", "<alloc::")):
            return None
        name = re.sub(r"::<[^:]*>$", "", callee).split("::")[-1]
        if not re.match(r"^\w+$", name) and not callee.startswith("<"):
            name = strip_turbofish(callee).split("::")[-1]      # generic arguments that contain `::` (closure types)
        if not re.match(r"^\w+$", name):
            return None
        cands = [f for n, fl in self.dump.fns.items() for f in fl
                 if (n.endswith("::" + name) or n == name) and len(f.args) == len(args) and "{closure" not in n]
        if len(cands) > 1:
            head = callee.lstrip("<").split("::")[0]
            c2 = [f for f in cands if f.name.split("::")[0] == head]
            if c2:
                cands = c2
        if len(cands) > 1 and args:
            # disambiguate by the type of the first parameter as written in the callee path (`impl Type<..>`)
            m = re.search(r"<impl ([\w:]+)", callee)
            if m:
                ty = m.group(1).split("::")[-1]
                c2 = [f for f in cands if self.type_head(f.args[0][1]) == ty] or [f for f in cands if ty in f.args[0][1]]
                if len(set(f.sig for f in c2)) != 1:
                    c3 = [f for f in cands if self.type_head(f.ret or "") == ty and self.type_head(f.args[0][1]) != ty]
                    if c3 and len(set(f.sig for f in c3)) == 1 and not [f for f in cands if self.type_head(f.args[0][1]) == ty]:
                        c2 = c3
                if c2:
                    cands = c2
        if len(cands) > 1 and callee.startswith("<"):
            # `<Type<..> as Trait>::method`: the receiver is that type; associated functions without a receiver belong to the
            # same impl block as a method resolved that way (or mention the type in their result)
            tm = re.match(r"^<(.*) as ([^<>]*)(<.*>)?>::\w+", callee)
            if tm:
                head = self.type_head(tm.group(1))
                impls = self.__dict__.setdefault("_impl_at", {})
                key = (head, tm.group(2))
                c2 = [f for f in cands if f.args and self.type_head(f.args[0][1]) == head]
                if len(c2) != 1 and key in impls:
                    c2 = [f for f in cands if f.name.rsplit("::", 1)[0] == impls[key]]
                if len(c2) != 1:
                    pat = re.compile(r"(^|[^\w])%s($|[^\w])" % re.escape(head))
                    c2 = [f for f in cands if pat.search(f.ret or "")]
                if len(c2) == 1:
                    cands = c2
                    impls.setdefault(key, c2[0].name.rsplit("::", 1)[0])
        if len(cands) > 1:
            # `Type::method`: the receiver (first parameter) or, for constructors, the result is that type
            segs = strip_turbofish(callee).split("::")
            if len(segs) >= 2 and re.match(r"^[A-Z]\w*$", segs[-2]):
                ty = segs[-2]
                pat = re.compile(r"(^|[^\w])%s($|[^\w])" % re.escape(ty))
                c2 = [f for f in cands if f.args and pat.search(f.args[0][1])]
                if len(c2) != 1:
                    c3 = [f for f in cands if pat.search(f.ret or "") and not (f.args and pat.search(f.args[0][1]))]
                    c2 = c2 if len(c2) == 1 else (c3 if len(c3) == 1 and not c2 else c2)
                if len(c2) == 1:
                    cands = c2
        if len(cands) > 1 and len(set(f.sig for f in cands)) == 1:
            # the same item printed twice (macro-generated inherent + trait impl, e.g. bitflags): same signature, same source position
            cands = cands[:1]
        if len(cands) == 1:
            return cands[0]
        return None

    # -- statements
    def _stmt(self, fn, st, env, pc):
        if st.startswith(("StorageLive", "StorageDead", "nop", "FakeRead", "PlaceMention", "Retag", "Coverage", "ConstEvalCounter")):
            return
        m = re.match(r"^(.+?) = (.*)$", st)
        if not m:
            raise Unsupported("%s: statement not understood: %s" % (fn.name, st))
        val = self._rvalue(fn, m.group(2), env, m.group(1))
        self._assign(fn, m.group(1), val, env)

    def _assign(self, fn, place, val, env):
        place = place.strip()
        if re.match(r"^_\d+$", place):
            env[place] = val
            return
        rm = re.match(r"^\(+\*(_\d+)\)", place)
        if rm and isinstance(env.get(rm.group(1)), BoxCell):
            env[rm.group(1)].content = val
            return
        if place.startswith("(*") and place.endswith(")"):
            inner = place[2:-1].strip()
            cur = self._place(fn, inner, env) if not re.match(r"^_\d+$", inner) or inner in env else None
            if isinstance(cur, (MutRef, ElemRef, MapElemRef, LocalCell, ProjRef)):
                self.write_ref(cur, val, env)
            else:
                self._assign(fn, inner, val, env)     # references modelled by value
            return
        m = re.match(r"^\((.*)\.(\d+): (.+)\)$", place)
        if m:
            inner, idx = m.group(1).strip(), m.group(2)
            vm = re.match(r"^\((.*) as (?:variant#)?(\w+)\)$", inner)
            if vm:
                base = self._place(fn, vm.group(1), env)
                if not isinstance(base, Enum):
                    raise Unsupported("%s: variant field store into %r" % (fn.name, base))
                variants = dict(base.variants)
                var = variants[vm.group(2)]
                fields = dict(var.fields)
                fields[idx] = val
                variants[vm.group(2)] = Agg(var.ty, fields)
                self._assign(fn, vm.group(1), Enum(base.ty, base.discr, variants, base.names), env)
                return
            try:
                base = self._place(fn, inner, env)
            except Unsupported:
                base = None
            if isinstance(base, Agg):
                nb = base.__class__(base.ty, base.fields)
            else:
                nb = Agg(fn.locals.get(inner, "?"), {})
            nb.fields[idx] = val
            self._assign(fn, inner, nb, env)
            return
        m = re.match(r"^(.*)\[(_\d+)\]$", place)
        if m:
            base = self._place(fn, m.group(1), env)
            vec = self.deref(base, env) if isinstance(base, (MutRef, ElemRef, MapElemRef, LocalCell, ProjRef)) else base
            idx = env.get(m.group(2))
            if isinstance(vec, VecVal) and isinstance(idx, SV) and re.match(r"^\d+$", idx.expr) and int(idx.expr) < len(vec.items):
                items = list(vec.items)
                items[int(idx.expr)] = val
                self._assign(fn, m.group(1), VecVal(items), env)
                return
            raise Unsupported("%s: store to index %s of %r" % (fn.name, idx, vec))
        raise Unsupported("%s: assignment to place %s" % (fn.name, place))

    # -- places / operands
    def _place(self, fn, p, env):
        p = re.sub(r"^(\(fake\)|fake shallow|fake) ", "", p.strip())
        if re.match(r"^_\d+$", p):
            if p not in env:
                raise Unsupported("%s: read of unassigned local %s" % (fn.name, p))
            return env[p]
        if p.startswith("(*") and p.endswith(")"):
            inner = self._place(fn, p[2:-1], env)
            return self.deref(inner, env)
        m = re.match(r"^\((.*)\.(\d+): (.+)\)$", p)
        if m:
            inner = m.group(1).strip()
            vm = re.match(r"^\((.*) as (?:variant#)?(\w+)\)$", inner)
            if vm:
                base = self._place(fn, vm.group(1), env)
                if isinstance(base, Opaque) and getattr(self, "lenient", False):
                    t = self.place_type(fn, vm.group(1))
                    base = self.lazy_enum(base, self.type_head(t)) if t else base
                if not isinstance(base, Enum):
                    raise Unsupported("%s: downcast of non-enum %r" % (fn.name, base))
                var = base.variants.get(vm.group(2))
                if var is None:
                    raise Unsupported("%s: variant %s missing in %r" % (fn.name, vm.group(2), base))
                return self._field(fn, var, m.group(2))
            base = self._place(fn, inner, env)
            return self._field(fn, base, m.group(2))
        m = re.match(r"^(.*)\[(_\d+)\]$", p)
        if m:
            base = self._place(fn, m.group(1), env)
            base = self.deref(base, env) if isinstance(base, (MutRef, ElemRef, MapElemRef, LocalCell, ProjRef)) else base
            idx = env.get(m.group(2))
            if isinstance(base, VecVal) and isinstance(idx, SV) and re.match(r"^\d+$", idx.expr) and int(idx.expr) < len(base.items):
                return base.items[int(idx.expr)]
            if isinstance(base, Opaque) and getattr(self, "lenient", False):
                return self.uf_call("index", [base, idx])
            raise Unsupported("%s: index %s of %r" % (fn.name, idx, base))
        raise Unsupported("%s: place %s" % (fn.name, p))

    # -- lazy initialisation of state the caller left abstract
    def lazy_field(self, base, idx, what):
        """reading an untracked field twice yields the same abstract value"""
        memo = self.__dict__.setdefault("_lazy_fields", {})
        key = (id(base), idx)
        if key not in memo:
            memo[key] = (base, Opaque("field %s of %s" % (idx, what)))
        return memo[key][1]

    def lazy_enum(self, v, ty, hint=""):
        """an abstract value that is matched on becomes an enum of its static type with an unconstrained discriminant and
        abstract payloads (once: the same abstract value always materialises to the same enum).  Only in lenient mode."""
        if isinstance(v, Enum) or not isinstance(v, Opaque) or not getattr(self, "lenient", False):
            return v
        memo = self.__dict__.setdefault("_lazy_enums", {})
        if id(v) in memo:
            return memo[id(v)][1]
        if ty == "Option":
            names, fields = ["None", "Some"], {"None": [], "Some": ["0"]}
        elif ty == "Result":
            names, fields = ["Ok", "Err"], {"Ok": ["0"], "Err": ["0"]}
        elif ty in self.decls.enums:
            variants = self.decls.enums.lookup(ty, hint)
            names = [n for n, _ in variants]
            fields = {n: [str(i) for i in range(len(fl))] for n, fl in variants}
        else:
            return v
        d = self.sem.sym_int("%s_lz%d_%s" % (self.sem.prefix, len(memo), re.sub(r"\W", "", ty)), "isize", 0, len(names) - 1)
        e = Enum(ty, SV("isize", d), {n: Agg(ty + "::" + n, {i: Opaque("%s.%s of %s" % (n, i, v.what)) for i in fields[n]}) for n in names}, names)
        memo[id(v)] = (v, e)
        return e

    def uf_call(self, callee, args):
        """uninterpreted function: the same callee on the very same argument values gives the same abstract result"""
        args = [self.deref(a, self.cur_env) if isinstance(a, (MutRef, ElemRef, MapElemRef, LocalCell, ProjRef)) else a for a in args]
        memo = self.__dict__.setdefault("_uf_calls", [])
        for c0, a0, r0 in memo:
            if c0 == callee and len(a0) == len(args) and all((x is y) or (isinstance(x, SV) and isinstance(y, SV) and x.expr == y.expr) for x, y in zip(a0, args)):
                return r0
        r0 = Opaque("call " + callee, args)
        memo.append((callee, list(args), r0))
        self.__dict__.setdefault("abstracted_calls", set()).add(strip_turbofish(callee))
        return r0

    def lazy_scalar(self, v, ty):
        """an abstract value that is branched on becomes an unconstrained scalar of its static type (once)"""
        memo = self.__dict__.setdefault("_lazy_scalars", {})
        if id(v) in memo:
            return memo[id(v)][1]
        ty = (ty or "").strip()
        if ty == "bool":
            sv = SV("bool", self.sem.fresh("Bool", "lzb"))
        elif ty in INT_BITS:
            bits, signed = INT_BITS[ty]
            lo, hi = (-(2 ** (bits - 1)), 2 ** (bits - 1) - 1) if signed else (0, 2 ** bits - 1)
            sv = SV(ty, self.sem.sym_int("%s_lzi%d" % (self.sem.prefix, len(memo)), ty, lo, hi))
        else:
            raise Unsupported("branch on an abstract value of type %r (%s)" % (ty, v.what[:80]))
        memo[id(v)] = (v, sv)
        return sv

    @staticmethod
    def type_head(ty):
        """`&std::option::Option<Located<..>>` -> `Option`"""
        ty = re.sub(r"^(&('\w+ )?(mut )?)+", "", ty.strip())
        ty = ty.split("<")[0]
        return ty.split("::")[-1]

    def place_type(self, fn, p):
        p = p.strip()
        if re.match(r"^_\d+$", p):
            return fn.locals.get(p)
        m = re.match(r"^\((.*)\.(\d+): (.+)\)$", p)
        if m:
            return m.group(3)
        if p.startswith("(*") and p.endswith(")"):
            t = self.place_type(fn, p[2:-1])
            return re.sub(r"^&('\w+ )?(mut )?", "", t) if t else None
        return None

    def deref(self, v, env):
        if isinstance(v, BoxCell):
            return v
        if isinstance(v, LocalCell):
            return self.deref(env[v.key], env) if isinstance(env[v.key], (MutRef, ElemRef, MapElemRef, LocalCell, ProjRef)) else env[v.key]
        if isinstance(v, MutRef):
            return self._place(v.fn, v.place, env)
        if isinstance(v, ElemRef):
            vec = self.deref(v.vecref, env)
            return vec.items[v.idx]
        if isinstance(v, MapElemRef):
            m = self.deref(v.mapref, env)
            return m.entries[v.idx][1]
        if isinstance(v, ProjRef):
            cur = self.deref(v.base, env)
            for kind, k in v.path:
                if kind == "f":
                    cur = self._field(_AnyFn, cur, k)
                else:
                    if isinstance(cur, Opaque) and getattr(self, "lenient", False):
                        raise Unsupported("projection through an abstract enum")
                    cur = cur.variants[k]
            return cur
        return v

    def _store_back(self, fn, place, old, new, env):
        """best effort: replace the abstract value by its materialised form where it is stored (plain locals only);
        the memo in lazy_enum covers every other access path"""
        place = place.strip()
        if re.match(r"^_\d+$", place) and env.get(place) is old:
            env[place] = new

    def write_ref(self, ref, val, env):
        """store through a &mut obtained earlier in this activation"""
        if isinstance(ref, LocalCell):
            env[ref.key] = val
        elif isinstance(ref, MutRef):
            self._assign(ref.fn, ref.place, val, env)
        elif isinstance(ref, ElemRef):
            vec = self.deref(ref.vecref, env)
            items = list(vec.items)
            items[ref.idx] = val
            self.write_ref(ref.vecref, VecVal(items), env)
        elif isinstance(ref, MapElemRef):
            m = self.deref(ref.mapref, env)
            entries = list(m.entries)
            entries[ref.idx] = (entries[ref.idx][0], val)
            self.write_ref(ref.mapref, MapVal(entries), env)
        elif isinstance(ref, ProjRef):
            root = self.deref(ref.base, env)

            def upd(cur, path):
                if not path:
                    return val
                kind, k = path[0]
                if kind == "f":
                    if not isinstance(cur, Agg):
                        raise Unsupported("store through a projection of %r" % (cur,))
                    fields = dict(cur.fields)
                    fields[k] = upd(self._field(_AnyFn, cur, k), path[1:])
                    new = cur.__class__(cur.ty, fields)
                    return new
                if not isinstance(cur, Enum):
                    raise Unsupported("store through a variant projection of %r" % (cur,))
                variants = dict(cur.variants)
                variants[k] = upd(variants[k], path[1:])
                return Enum(cur.ty, cur.discr, variants, cur.names)
            self.write_ref(ref.base, upd(root, ref.path), env)
        else:
            raise Unsupported("store through a non-reference %r" % (ref,))

    def _field(self, fn, base, idx):
        if isinstance(base, BoxCell):
            return base
        if isinstance(base, Agg):
            if idx not in base.fields:
                if isinstance(base, OpenAgg) or (getattr(self, "lenient", False) and base.ty.startswith("{closure@")):
                    # (rustc's MIR printer drops captures that share a root variable, e.g. `self.a` and `self.b`: a capture
                    # missing from the printed aggregate reads as an abstract value)
                    return self.lazy_field(base, idx, base.ty)
                raise Unsupported("%s: field %s of %r not tracked" % (fn.name, idx, base))
            return base.fields[idx]
        if isinstance(base, Opaque):
            return self.lazy_field(base, idx, base.what)
        raise Unsupported("%s: field %s of non-aggregate %r" % (fn.name, idx, base))

    def _operand(self, fn, o, env):
        o = o.strip()
        if o.startswith("no_retag "):
            o = o[len("no_retag "):]
        if o.startswith("copy "):
            return self._place(fn, o[5:], env)
        if o.startswith("move "):
            return self._place(fn, o[5:], env)
        if o.startswith("const "):
            return self._const(fn, o[6:].strip())
        if ("::" in o and not o.startswith(("(", "_", "*"))) or re.match(r"^[A-Za-z][A-Za-z0-9_]*$", o):
            return Opaque("fnitem:" + o)      # function item passed by value
        return self._place(fn, o, env)

    def _const(self, fn, c):
        sem = self.sem
        m = re.match(r"^(-?[0-9.]+(?:E[+-]?\d+)?)(f64|f32)$", c)
        if m:
            return SV(m.group(2), sem.float_const(m.group(1), m.group(2)))
        m = re.match(r"^(-?\d+)_(u8|u16|u32|u64|usize|i8|i16|i32|i64|isize)$", c)
        if m:
            return SV(m.group(2), sem.int_const(int(m.group(1)), m.group(2)))
        if c in ("true", "false"):
            return SV("bool", c)
        m = re.match(r"^ZeroSized: (\{closure@.*\})$", c)
        if m:
            return Agg(m.group(1), {})       # closure without captures
        m = re.match(r"^ZeroSized: (.*)$", c)
        if m:
            return Opaque("fnitem:" + m.group(1))
        if c.startswith('"'):
            return SV("str", c)
        m = re.match(r"^core::num::<impl (\w+)>::(MAX|MIN)$", c)
        if m:
            bits, signed = INT_BITS[m.group(1)]
            v = (2 ** (bits - 1) - 1 if signed else 2 ** bits - 1) if m.group(2) == "MAX" else (-(2 ** (bits - 1)) if signed else 0)
            return SV(m.group(1), sem.int_const(v, m.group(1)))
        m = re.match(r"^core::f64::<impl f64>::(\w+)$", c)
        if m and m.group(1) in ("EPSILON", "MAX", "MIN_POSITIVE"):
            v = {"EPSILON": "2.220446049250313e-16", "MAX": "1.7976931348623157e308", "MIN_POSITIVE": "2.2250738585072014e-308"}[m.group(1)]
            return SV("f64", sem.float_const(v, "f64"))
        if c == "()":
            return Opaque("unit")
        cm = re.match(r"^'(\\?.)'$", c)
        if cm:
            ch = {"\\n": "\n", "\\t": "\t", "\\\\": "\\", "\\'": "'"}.get(cm.group(1), cm.group(1))
            return SV("u32", str(ord(ch[-1])))
        if re.search(r" as (std::mem::)?SizedTypeProperties>::(ALIGN|SIZE|IS_ZST)$", c):
            return Opaque("layout constant " + c[-5:])
        if re.search(r"promoted\[\d+\]$", c):
            pm = re.search(r"::(\w+(?:::\{closure#\d+\})*)::promoted\[(\d+)\]$", strip_turbofish(c))
            hits = []
            if pm:
                tail = "::%s::promoted[%s]" % (pm.group(1), pm.group(2))
                hits = [f for name, fl in self.dump.fns.items() for f in fl if name.endswith(tail) or name == tail[2:]]
                if len(hits) > 1:
                    h2 = [f for f in hits if f.name.split("::")[0] == c.split("::")[0]]
                    hits = h2 or hits
                if len(hits) > 1:
                    # `module::Type::method::promoted[n]` (a method: printed under `<impl at ..>`) vs `module::function::promoted[n]`
                    segs = strip_turbofish(c).split("::")
                    owner_is_type = len(segs) >= 3 and bool(re.match(r"^[A-Z]", segs[-3 - pm.group(1).count("::")]))
                    h3 = [f for f in hits if ("<impl at" in f.name) == owner_is_type]
                    hits = h3 or hits
            if len(hits) != 1:
                raise Unsupported("promoted constant %s: %d candidates" % (c, len(hits)))
            outs = []
            self._exec(hits[0], "bb0", {}, [], outs, [], 1)
            if len(outs) != 1 or outs[0].kind != "return":
                raise Unsupported("promoted constant %s not a straight line" % c)
            return outs[0].value
        m = re.match(r"^(?:[\w:]+::)?(\w+)::([A-Z][A-Z0-9_]*)$", c)
        if m:
            # associated constant `Type::NAME`: evaluate its body from the dump
            hits = [f for name, fl in self.dump.fns.items() for f in fl
                    if name.endswith("::" + m.group(2)) and f.sig.startswith("const ") and self.type_head(f.ret or "") == m.group(1)]
            if not hits and not re.match(r"^[A-Z]", m.group(1)):
                # module-level constant `path::to::NAME`
                hits = [f for name, fl in self.dump.fns.items() for f in fl if name == m.group(2) and f.sig.startswith("const ")]
            if len(hits) == 1:
                memo = self.__dict__.setdefault("_const_memo", {})
                if c not in memo:
                    outs = []
                    self._exec(hits[0], "bb0", {}, [], outs, [], 1)
                    rets = [o for o in outs if o.kind == "return"]
                    if len(rets) != 1:
                        raise Unsupported("constant %s does not evaluate on a single path" % c)
                    memo[c] = rets[0].value
                return memo[c]
        m = re.match(r"^(?:[\w:<>, ]+::)?(\w+)::<.*>::(\w+)$|^(?:[\w:<>, ]+::)?(\w+)::(\w+)$", c)
        # unit-like enum constant, e.g. `std::option::Option::<Infallible>::None`
        if m:
            ty = m.group(1) or m.group(3)
            var = m.group(2) or m.group(4)
            if ty in self.decls.enums and var in [v for v, _ in self.decls.enums[ty]]:
                return self._mk_enum(ty, var, [])
        if c.startswith("{alloc") or c.startswith("{") or c.startswith('b"'):
            return Opaque("static " + c)
        if getattr(self, "lenient", False) and re.search(r"(^|::)[A-Z][A-Z0-9_]*$", c):
            memo = self.__dict__.setdefault("_abstract_consts", {})
            return memo.setdefault(c, Opaque("constant " + c))
        raise Unsupported("%s: constant %s" % (fn.name, c))

    @staticmethod
    def _same_owner(fname, c):
        # `quantity::<impl at ..>::new_approx::promoted[0]` vs `quantity::Number::new_approx::promoted[0]`
        return fname.split("::")[-2] == c.split("::")[-2] and fname.split("::")[0] == c.split("::")[0]

    def _mk_enum(self, ty, var, vals, named=None, hint=""):
        variants = self.decls.enums.lookup(ty, hint)
        names = [v for v, _ in variants]
        idx = names.index(var)
        fields = dict(variants)[var]
        if named is not None:
            f = {str(fields.index(k)): v for k, v in named.items()}
        else:
            f = {str(i): v for i, v in enumerate(vals)}
        return Enum(ty, SV("isize", self.sem.int_const(idx, "isize")), {var: Agg(ty + "::" + var, f)}, names)

    # -- rvalues
    def _rvalue(self, fn, r, env, dest=None):
        r = r.strip()
        sem = self.sem
        if r.startswith("no_retag "):
            r = r[len("no_retag "):]
        if r.startswith(("copy ", "move ", "const ")):
            # may be a cast: `copy _2 as f64 (FloatToFloat)`
            m = re.match(r"^((?:copy|move|const) .+?) as (.+?) \((\w+)(?:\(.*\))?\)$", r)
            if m:
                v = self._operand(fn, m.group(1), env)
                return self._cast(fn, v, m.group(2).strip(), m.group(3))
            return self._operand(fn, r, env)
        if r.startswith("&mut "):
            place = r[len("&mut "):].strip()
            root, path = place_path(place)
            if root and re.search(r"\(\*%s\)" % root, place) and isinstance(env.get(root), (MutRef, ElemRef, MapElemRef, LocalCell, ProjRef)):
                # a projection through a reference held in a local: express it relative to that reference, so that it
                # stays meaningful when it leaves this activation (returned, stored in an Option, captured)
                return ProjRef(env[root], path) if path else env[root]
            return MutRef(fn, place)
        if r.startswith("&"):
            p = re.sub(r"^&(raw (const|mut) |mut )?", "", r)
            return self._place(fn, p, env)
        m = re.match(r"^(\w+)\((.*)\)$", r)
        if m and m.group(1) in ("Add", "Sub", "Mul", "Div", "Rem", "Lt", "Le", "Gt", "Ge", "Eq", "Ne", "BitAnd", "BitOr", "BitXor",
                                "AddWithOverflow", "SubWithOverflow", "MulWithOverflow", "Shl", "Shr", "AddUnchecked", "SubUnchecked", "MulUnchecked"):
            a, b = [self._operand(fn, x, env) for x in split_top(m.group(2))]
            return self._binop(fn, m.group(1), a, b)
        if m and m.group(1) in ("Not", "Neg"):
            a = self._operand(fn, m.group(2), env)
            if isinstance(a, Opaque) and getattr(self, "lenient", False):
                return self.uf_call("unop " + m.group(1), [a])
            if m.group(1) == "Not":
                if a.sort != "bool":
                    raise Unsupported("Not on %s" % a.sort)
                return SV("bool", sem.not_(a.expr))
            return SV(a.sort, sem.neg(a.expr, a.sort))
        m = re.match(r"^PtrMetadata\((.*)\)$", r)
        if m:
            v = self._operand(fn, m.group(1), env)
            v = self.deref(v, env) if isinstance(v, (MutRef, ElemRef, MapElemRef, LocalCell, ProjRef)) else v
            if isinstance(v, VecVal):
                return SV("usize", str(len(v.items)))
            if isinstance(v, Opaque) and getattr(self, "lenient", False):
                return self.uf_call("slice length", [v])
            raise Unsupported("%s: PtrMetadata of %r" % (fn.name, v))
        m = re.match(r"^discriminant\((.*)\)$", r)
        if m:
            v = self._place(fn, m.group(1), env)
            if isinstance(v, Opaque) and getattr(self, "lenient", False):
                t = self.place_type(fn, m.group(1))
                if t:
                    e = self.lazy_enum(v, self.type_head(t))
                    if isinstance(e, Enum):
                        self._store_back(fn, m.group(1), v, e, env)
                        v = e
            if not isinstance(v, Enum):
                raise Unsupported("%s: discriminant of %r" % (fn.name, v))
            return v.discr
        # closure aggregate: `{closure@src/x.rs:1:2: 3:4} { a: move _1, b: copy _2 }` (captures are positional)
        if r.startswith("{closure@"):
            end = r.index("}")
            ty = r[:end + 1]
            rest = r[end + 1:].strip()
            fields = {}
            if rest.startswith("{") and rest.endswith("}") and rest[1:-1].strip():
                for i, f in enumerate(split_top(rest[1:-1])):
                    k, v = f.split(":", 1)
                    fields[str(i)] = self._operand(fn, v, env)
            return Agg(ty, fields)
        # array literal `[move _1, copy _2]`
        if r.startswith("[") and r.endswith("]") and ";" not in r:
            return VecVal([self._operand(fn, x, env) for x in split_top(r[1:-1])] if r[1:-1].strip() else [])
        # tuple
        if r.startswith("(") and r.endswith(")"):
            items = split_top(r[1:-1])
            return Agg("tuple", {str(i): self._operand(fn, x, env) for i, x in enumerate(items)})
        # aggregates: Path::Variant(ops) | Path::Variant { f: op } | Path { f: op } | Path(ops) | Path::Variant
        m = re.match(r"^([\w:<>, &'()\[\]]+?)\s*\{(.*)\}$", r)
        if m:
            path = re.sub(r"::<.*?>(?=::|$)", "", m.group(1).strip())
            named = {}
            for f in split_top(m.group(2)):
                k, v = f.split(":", 1)
                named[k.strip()] = self._operand(fn, v, env)
            parts = path.split("::")
            if len(parts) >= 2 and parts[-2] in self.decls.enums and parts[-1] in [v for v, _ in self.decls.enums.lookup(parts[-2], "::".join(parts[:-2]))]:
                return self._mk_enum(parts[-2], parts[-1], None, named, hint="::".join(parts[:-2]))
            if parts[-1] in self.decls.structs:
                order = self.decls.structs.lookup(parts[-1], "::".join(parts[:-1]))
                return Agg(parts[-1], {str(order.index(k)): v for k, v in named.items()})
            if parts[0] in ("std", "core", "alloc") and parts[-1] in ("Range", "RangeInclusive", "RangeFrom", "RangeTo"):
                # std range structs: fields in declaration order (start, end)
                return Agg(parts[-1], {str(i): named[k] for i, k in enumerate(x for x in ("start", "end") if x in named)})
            raise Unsupported("%s: aggregate %s" % (fn.name, r))
        m = re.match(r"^([\w:<>, &'\[\]]+?)\((.*)\)$", r)
        if "::<" in r and r.endswith(")"):
            # generic arguments may contain parentheses (tuple types): cut the path at the first `(` outside `<..>`
            d, cut = 0, None
            for i, ch in enumerate(r):
                if ch == "<":
                    d += 1
                elif ch == ">" and r[i - 1] not in "-=":
                    d -= 1
                elif ch == "(" and d == 0:
                    cut = i
                    break
            if cut is not None and re.match(r"^[\w:]+$", strip_turbofish(r[:cut])):
                m = re.match(r"^(.*)$", r[:cut])
                m = type("M", (), {"group": staticmethod(lambda i, a=r[:cut], b=r[cut + 1:-1]: a if i == 1 else b)})()
        if m:
            path = strip_turbofish(m.group(1).strip())
            vals = [self._operand(fn, x, env) for x in split_top(m.group(2))] if m.group(2).strip() else []
            parts = path.split("::")
            if len(parts) >= 2 and parts[-2] in self.decls.enums and parts[-1] in [v for v, _ in self.decls.enums[parts[-2]]]:
                return self._mk_enum(parts[-2], parts[-1], vals)
            if parts[-1] in self.decls.structs:
                return Agg(parts[-1], {str(i): v for i, v in enumerate(vals)})
            if re.match(r"^[A-Z]\w*$", parts[-1]) and (len(parts) == 1 or not re.match(r"^[A-Z]", parts[-2])):
                # a tuple struct the source scan does not know (macro-generated, e.g. bitflags' `Modifiers(InternalBitFlags)`)
                return Agg(parts[-1], {str(i): v for i, v in enumerate(vals)})
            raise Unsupported("%s: aggregate %s" % (fn.name, r))
        m = re.match(r"^([\w:<>, &'\[\]]+)$", r) or (re.match(r"^[\w:]+$", strip_turbofish(r)) if "::<" in r and "(" not in strip_turbofish(r) and "{" not in strip_turbofish(r) else None)
        if m:
            path = strip_turbofish(r) if "::<" in r else r
            parts = path.split("::")
            if len(parts) >= 2 and parts[-2] in self.decls.enums and parts[-1] in [v for v, _ in self.decls.enums[parts[-2]]]:
                return self._mk_enum(parts[-2], parts[-1], [])
            if len(parts) >= 2 and parts[0] in ("core", "std", "alloc"):
                return Opaque("foreign constant " + r)
        if r in ("Less", "Equal", "Greater"):
            # core::cmp::Ordering, printed bare by the MIR pretty-printer
            names = ["Less", "Equal", "Greater"]
            return Enum("Ordering", SV("isize", self.sem.int_const(names.index(r), "isize")), {r: Agg("Ordering::" + r, {})}, names)
        raise Unsupported("%s: rvalue %s" % (fn.name, r))

    def _binop(self, fn, op, a, b):
        sem = self.sem
        if not isinstance(a, SV) or not isinstance(b, SV):
            if getattr(self, "lenient", False) and all(isinstance(x, (SV, Opaque)) for x in (a, b)):
                if op.endswith("WithOverflow"):
                    # arithmetic on integers the encoding keeps abstract (span offsets): assumed not to overflow - stated in the evidence
                    self.__dict__.setdefault("abstracted_calls", set()).add("overflow flag of arithmetic on abstract integers (assumed clear)")
                    return Agg("tuple", {"0": self.uf_call("binop " + op[:-len("WithOverflow")], [a, b]), "1": SV("bool", "false")})
                return self.uf_call("binop " + op, [a, b])
            raise Unsupported("%s: binop on non-scalars" % fn.name)
        if a.sort in ("f64", "f32"):
            if op in ("Add", "Sub", "Mul", "Div"):
                return SV(a.sort, sem.float_arith(op, a.expr, b.expr, a.sort))
            if op in ("Lt", "Le", "Gt", "Ge", "Eq", "Ne"):
                return SV("bool", sem.float_cmp(op, a.expr, b.expr))
            raise Unsupported("float op %s" % op)
        if a.sort == "bool":
            if op in ("Eq", "Ne", "BitAnd", "BitOr", "BitXor"):
                return SV("bool", sem.bool_op(op, a.expr, b.expr))
            raise Unsupported("bool op %s" % op)
        if a.sort in INT_BITS:
            if op in ("Lt", "Le", "Gt", "Ge", "Eq", "Ne"):
                return SV("bool", sem.int_cmp(op, a.expr, b.expr, a.sort))
            if op.endswith("WithOverflow"):
                res, ovf = sem.int_arith_overflow(op[:-len("WithOverflow")], a.expr, b.expr, a.sort)
                return Agg("tuple", {"0": SV(a.sort, res), "1": SV("bool", ovf)})
            if op in ("Add", "Sub", "Mul", "Div", "Rem"):
                return SV(a.sort, sem.int_arith(op, a.expr, b.expr, a.sort))
            if op in ("BitAnd", "BitOr", "BitXor", "Shl", "Shr"):
                try:
                    return SV(a.sort, sem.int_bitop(op, a.expr, b.expr, a.sort))
                except ValueError as e:
                    raise Unsupported("int op %s: %s" % (op, e))
            raise Unsupported("int op %s" % op)
        raise Unsupported("%s: binop %s on %s" % (fn.name, op, a.sort))

    def _cast(self, fn, v, ty, kind):
        sem = self.sem
        if isinstance(v, SV):
            if kind == "FloatToFloat":
                return SV(ty, sem.float_to_float(v.expr, v.sort, ty))
            if kind == "FloatToInt":
                return SV(ty, sem.float_to_int(v.expr, v.sort, ty))
            if kind == "IntToFloat":
                return SV(ty, sem.int_to_float(v.expr, v.sort, ty))
            if kind == "IntToInt":
                return SV(ty, sem.int_to_int(v.expr, v.sort, ty))
        if kind == "Transmute" and isinstance(v, BoxCell) and ty in INT_BITS:
            return Opaque("address")
        if kind in ("PointerCoercion", "PtrToPtr", "Transmute") or kind.startswith("Pointer"):
            return v
        raise Unsupported("%s: cast %s of %r to %s" % (fn.name, kind, v, ty))
