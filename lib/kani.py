"""Engine K: run Kani harnesses (compiled inside the scratch copy of the crate) and parse verdicts.

A verdict is only ever one of
  success      - CBMC proved every check of the harness (unwinding assertions included) and
                 every kani::cover! was satisfied
  failed       - CBMC produced a counterexample for at least one check
  inconclusive - anything else (timeout, out of memory, build error, unsatisfied cover, missing harness)
"""
import os, re, subprocess, time, json, shutil

KANI_ENV = {"CARGO_NET_OFFLINE": "true"}

RE_CHECKING = re.compile(r"^(?:Thread (\d+): )?Checking harness (\S+?)\.\.\.\s*$")
RE_THREAD = re.compile(r"^Thread (\d+):\s*$")
RE_SUMMARY = re.compile(r"^\s*\*\* (\d+) of (\d+) failed(?: \((\d+) unreachable\))?")
RE_COVER = re.compile(r"^\s*\*\* (\d+) of (\d+) cover properties satisfied")
RE_FAILED = re.compile(r"^Failed Checks: (.*)$")
RE_FILE = re.compile(r'^\s*File: "(.*?)", line (\d+), in (.*)$')
RE_VERDICT = re.compile(r"^VERIFICATION:- (SUCCESSFUL|FAILED)")
RE_TIME = re.compile(r"^Verification Time: ([0-9.]+)s")


def _env(repo_dir=None):
    e = dict(os.environ)
    e.update(KANI_ENV)
    if repo_dir:
        gen = os.path.join(os.path.dirname(repo_dir), "gen")
        os.makedirs(gen, exist_ok=True)
        e["COOKLANG_VERIF_GEN"] = gen
    return e


def parse_terse(text):
    """Parse `--output-format terse` output of one cargo-kani invocation (with or without -j)."""
    results = {}
    cur_by_thread = {}
    queue_by_thread = {}
    active = None  # harness whose result block we are inside
    lines = text.splitlines()
    i = 0
    pending_thread = None
    for ln in lines:
        m = RE_CHECKING.match(ln)
        if m:
            th = m.group(1) or "0"
            name = m.group(2)
            cur_by_thread[th] = name
            results.setdefault(name, {"status": "inconclusive", "failed_checks": [], "checks": 0,
                                      "failed": 0, "covers": [0, 0], "time_s": None, "reason": "no verdict"})
            if m.group(1) is None:
                active = name
            continue
        m = RE_THREAD.match(ln)
        if m:
            active = cur_by_thread.get(m.group(1))
            continue
        if active is None:
            continue
        r = results[active]
        m = RE_SUMMARY.match(ln)
        if m:
            r["failed"], r["checks"] = int(m.group(1)), int(m.group(2))
            r["unreachable"] = int(m.group(3) or 0)
            continue
        m = RE_COVER.match(ln)
        if m:
            r["covers"] = [int(m.group(1)), int(m.group(2))]
            continue
        m = RE_FAILED.match(ln)
        if m:
            r["failed_checks"].append({"desc": m.group(1)})
            continue
        m = RE_FILE.match(ln)
        if m and r["failed_checks"] and "file" not in r["failed_checks"][-1]:
            r["failed_checks"][-1].update(file=m.group(1), line=int(m.group(2)), func=m.group(3))
            continue
        m = RE_VERDICT.match(ln)
        if m:
            r["status"] = "success" if m.group(1) == "SUCCESSFUL" else "failed"
            r["reason"] = ""
            if r["status"] == "failed" and not r["failed_checks"] and r.get("failed", 0) == 0:
                # "FAILED" with "0 of N failed": every check came back `Status: ERROR` - CBMC ran out of memory or crashed
                r["status"] = "inconclusive"
                r["reason"] = "solver error / out of memory (no check decided)"
            continue
        m = RE_TIME.match(ln)
        if m:
            r["time_s"] = float(m.group(1))
            continue
        if "CBMC timed out" in ln or "timed out" in ln.lower():
            r["status"] = "inconclusive"
            r["reason"] = "timeout"
        if "out of memory" in ln.lower() or "Status: ERROR" in ln:
            r["status"] = "inconclusive"
            r["reason"] = "solver error / out of memory"
    return results


def run(repo_dir, harnesses, target_dir, log_path, jobs=8, timeout_s=600, package="cooklang",
        mem_gb=24, extra=()):
    """Run the named harnesses (substring filters made exact by full path) in one cargo-kani call."""
    cmd = ["cargo", "kani", "-p", package, "-Z", "stubbing", "-Z", "unstable-options",
           "--harness-timeout", "%ds" % timeout_s, "--output-format", "terse",
           "--target-dir", target_dir, "-j", str(max(1, min(jobs, len(harnesses))))]
    for h in harnesses:
        cmd += ["--harness", h]
    cmd += ["--exact"] if all("::" in h for h in harnesses) else []
    cmd += list(extra)
    t0 = time.time()
    shell = "ulimit -v %d; exec %s" % (mem_gb * 1024 * 1024, " ".join("'%s'" % c for c in cmd))
    with open(log_path, "w") as lf:
        p = subprocess.Popen(["bash", "-c", shell], cwd=repo_dir, stdout=lf, stderr=subprocess.STDOUT,
                             env=_env(repo_dir), start_new_session=True)
        try:
            # global wall cap: every harness may use its own timeout, sequential waves included
            waves = (len(harnesses) + jobs - 1) // max(1, jobs)
            p.wait(timeout=timeout_s * waves + 600)
        except subprocess.TimeoutExpired:
            import signal
            os.killpg(p.pid, signal.SIGKILL)
            p.wait()
    wall = time.time() - t0
    text = open(log_path, errors="replace").read()
    res = parse_terse(text)
    build_failed = ("error: could not compile" in text) or ("error[E" in text)
    out = {}
    for h in harnesses:
        key = None
        for name in res:
            if name == h or name.endswith("::" + h):
                key = name
        if key is None:
            out[h] = {"status": "inconclusive", "failed_checks": [], "checks": 0, "failed": 0,
                      "covers": [0, 0], "time_s": None,
                      "reason": "build error" if build_failed else "harness not found / not run"}
        else:
            out[h] = res[key]
            out[h]["full_name"] = key
    return out, wall, build_failed


RE_PB_TEST = re.compile(r"Concrete playback unit test for `([^`]+)`:\s*```(.*?)```", re.S)


def playback_print(repo_dir, harness, target_dir, log_path, timeout_s=1800, package="cooklang", mem_gb=24):
    """Re-run one failing harness with concrete playback and return the list of generated tests."""
    cmd = ["cargo", "kani", "-p", package, "-Z", "stubbing", "-Z", "concrete-playback",
           "--concrete-playback=print", "--output-format", "terse", "--target-dir", target_dir,
           "--harness", harness]
    shell = "ulimit -v %d; exec timeout %d %s" % (mem_gb * 1024 * 1024, timeout_s,
                                                 " ".join("'%s'" % c for c in cmd))
    with open(log_path, "w") as lf:
        subprocess.run(["bash", "-c", shell], cwd=repo_dir, stdout=lf, stderr=subprocess.STDOUT, env=_env(repo_dir))
    text = open(log_path, errors="replace").read()
    tests = []
    for m in RE_PB_TEST.finditer(text):
        body = m.group(2)
        vals = re.findall(r"vec!\[([0-9, ]*)\]", body.split("vec![", 1)[1]) if "vec![" in body else []
        vecs = [[int(x) for x in v.replace(" ", "").split(",") if x] for v in vals]
        chk = re.search(r'Check for `[^`]*`: "(.*)"', body)
        tests.append({"harness": m.group(1), "check": chk.group(1) if chk else "", "concrete_vals": vecs})
    return tests


def playback_native(repo_dir, playback_file, tests, log_path, package="cooklang", release=False):
    """Write #[test]s that feed Kani's concrete values to the same harness, run them natively.

    Returns {test_name: "failed"|"passed"}; "failed" means the violation reproduces on the real code.
    """
    names = []
    with open(playback_file, "w") as f:
        for i, t in enumerate(tests):
            fn = t["harness"].split("::")[-1]
            name = "verif_playback_%s_%d" % (fn, i)
            names.append(name)
            vecs = ", ".join("vec![%s]" % ", ".join(str(b) for b in v) for v in t["concrete_vals"])
            f.write("#[test]\nfn %s() {\n    let concrete_vals: Vec<Vec<u8>> = vec![%s];\n"
                    "    kani::concrete_playback_run(concrete_vals, %s);\n}\n" % (name, vecs, fn))
    cmd = ["cargo", "kani", "playback", "-Z", "concrete-playback", "-p", package]
    if release:
        cmd += ["--release"]
    cmd += ["--", "verif_playback_"]
    with open(log_path, "w") as lf:
        subprocess.run(cmd, cwd=repo_dir, stdout=lf, stderr=subprocess.STDOUT, env=_env(repo_dir))
    text = open(log_path, errors="replace").read()
    out = {}
    for n in names:
        m = re.search(r"test \S*%s \.\.\. (ok|FAILED)" % re.escape(n), text)
        out[n] = {"ok": "passed", "FAILED": "failed"}.get(m.group(1)) if m else "not-run"
    return out
