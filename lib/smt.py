"""Engine M, part 2: SMT semantics for the MIR interpreter and the solver driver.

RealSem ("real+delta"): an f64/f32 value is a Real; every *rounded* operation (Add Sub Mul Div,
f64->f32) is  exact_result * (1 + d_k)  with a fresh d_k, |d_k| <= u  (u = 2^-53 for f64, 2^-24 for
f32).  trunc / round / fract / abs / comparisons / int<->float casts (<= 2^53) are exact.  This is
the standard model of IEEE-754 round-to-nearest and over-approximates the real behaviour as long as
no operation overflows and no Mul/Div result is subnormal; every check states the value ranges that
guarantee this.  `unsat` therefore means "holds for the compiled code on that range"; `sat` is only a
candidate and is replayed natively.

FpSem: bit-precise (_ FloatingPoint 11 53) / (_ FloatingPoint 8 24), RNE; integers are bit-vectors.
"""
import re, subprocess, time, os, threading, struct
from fractions import Fraction

U64 = Fraction(1, 2 ** 53)
U32 = Fraction(1, 2 ** 24)

INT_BITS = {"u8": (8, False), "u16": (16, False), "u32": (32, False), "u64": (64, False), "usize": (64, False),
            "i8": (8, True), "i16": (16, True), "i32": (32, True), "i64": (64, True), "isize": (64, True)}


def rat(fr):
    fr = Fraction(fr)
    if fr.denominator == 1:
        return str(fr.numerator) + ".0" if fr >= 0 else "(- %d.0)" % (-fr.numerator)
    s = "(/ %d.0 %d.0)" % (abs(fr.numerator), fr.denominator)
    return s if fr >= 0 else "(- %s)" % s


def ilit(v):
    return str(v) if v >= 0 else "(- %d)" % (-v)


def f32_round(x):
    return struct.unpack("f", struct.pack("f", x))[0]


class RealSem:
    name = "real+delta"

    def __init__(self, prefix="k", abstract_products=False):
        self.decls = []       # SMT commands (declare-const / assert) shared by all paths
        self.n = 0
        self.prefix = prefix
        self.deltas = []
        # abstract_products: a product / quotient of two non-constant terms becomes a fresh variable
        # constrained only by sign / magnitude facts of real multiplication (a sound relaxation that
        # keeps the encoding linear).  `abstractions` lets a candidate model be refined exactly.
        self.abstract_products = abstract_products
        self.abstractions = []   # (var, op, a_expr, b_expr)
        self._prod_memo = {}
        self._def_memo = {}
        self._floor_memo = {}

    @staticmethod
    def is_literal(e):
        return bool(re.match(r"^\(?-? ?\(?/? ?[0-9. ]+\)?\)?$", e))

    def product(self, op, a, b):
        """exact term for a*b or a/b, or its linear relaxation when abstract_products is on"""
        sym = {"Mul": "*", "Div": "/"}[op]
        if not self.abstract_products or self.is_literal(a) or self.is_literal(b):
            return "(%s %s %s)" % (sym, a, b)
        key = (op, a, b)
        if key in self._prod_memo:
            return self._prod_memo[key]
        p = self.fresh("Real", "p")
        A = self.decls.append
        if op == "Mul":
            A("(assert (=> (or (= %s 0.0) (= %s 0.0)) (= %s 0.0)))" % (a, b, p))
            A("(assert (=> (and (>= %s 0.0) (>= %s 0.0)) (>= %s 0.0)))" % (a, b, p))
            A("(assert (=> (and (<= %s 0.0) (<= %s 0.0)) (>= %s 0.0)))" % (a, b, p))
            A("(assert (=> (and (>= %s 0.0) (<= %s 0.0)) (<= %s 0.0)))" % (a, b, p))
            A("(assert (=> (and (<= %s 0.0) (>= %s 0.0)) (<= %s 0.0)))" % (a, b, p))
            A("(assert (=> (and (>= %s 0.0) (<= %s 1.0) (>= %s 0.0)) (<= %s %s)))" % (a, a, b, p, b))
            A("(assert (=> (and (>= %s 0.0) (<= %s 1.0) (>= %s 0.0)) (<= %s %s)))" % (b, b, a, p, a))
            A("(assert (=> (= %s 1.0) (= %s %s)))" % (a, p, b))
            A("(assert (=> (= %s 1.0) (= %s %s)))" % (b, p, a))
        else:
            A("(assert (=> (= %s 0.0) (= %s 0.0)))" % (a, p))
            A("(assert (=> (= %s 1.0) (= %s %s)))" % (b, p, a))
            A("(assert (=> (and (>= %s 0.0) (> %s 0.0)) (>= %s 0.0)))" % (a, b, p))
            A("(assert (=> (and (> %s 0.0) (> %s 0.0)) (> %s 0.0)))" % (a, b, p))
            A("(assert (=> (and (>= %s 0.0) (< %s %s)) (< %s 1.0)))" % (a, a, b, p))
            A("(assert (=> (and (> %s 0.0) (>= %s %s)) (>= %s 1.0)))" % (b, a, b, p))
        self.abstractions.append((p, op, a, b))
        self._prod_memo[key] = p
        return p

    # -- helpers
    def fresh(self, sort, hint="t"):
        self.n += 1
        name = "%s_%s%d" % (self.prefix, hint, self.n)
        self.decls.append("(declare-const %s %s)" % (name, sort))
        return name

    def define(self, sort, expr, hint="t"):
        if re.match(r"^[A-Za-z_][\w]*$", expr):
            return expr          # already a variable
        key = (sort, expr)
        if key in self._def_memo:
            return self._def_memo[key]
        name = self.fresh(sort, hint)
        self.decls.append("(assert (= %s %s))" % (name, expr))
        self._def_memo[key] = name
        return name

    def simplify(self, e):
        e = e.strip()
        m = re.match(r"^\(= (-?\d+) (-?\d+)\)$", e)
        if m:
            return "true" if m.group(1) == m.group(2) else "false"
        m = re.match(r"^\(not (true|false)\)$", e)
        if m:
            return "false" if m.group(1) == "true" else "true"
        if e.startswith("(not (not ") and e.endswith("))"):
            inner = e[len("(not (not "):-2]
            if inner.count("(") == inner.count(")"):
                return self.simplify(inner)
        m = re.match(r"^\(not \(= (-?\d+) (-?\d+)\)\)$", e)
        if m:
            return "false" if m.group(1) == m.group(2) else "true"
        if e.startswith("(and "):
            parts = split_sexp(e[5:-1])
            parts = [self.simplify(p) for p in parts]
            if any(p == "false" for p in parts):
                return "false"
            parts = [p for p in parts if p != "true"]
            if not parts:
                return "true"
            return parts[0] if len(parts) == 1 else "(and %s)" % " ".join(parts)
        return e

    def and_(self, xs):
        xs = [x for x in xs if x != "true"]
        if not xs:
            return "true"
        return xs[0] if len(xs) == 1 else "(and %s)" % " ".join(xs)

    def not_(self, x):
        if x == "true":
            return "false"
        if x == "false":
            return "true"
        return "(not %s)" % x

    # -- constants
    def float_const(self, txt, sort):
        v = float(txt)
        if sort == "f32":
            v = f32_round(v)
        return rat(Fraction(v))

    def int_const(self, v, sort):
        return ilit(v)

    def int_eq_const(self, v, k):
        if v.sort == "bool":
            if v.expr in ("true", "false"):
                return "true" if (v.expr == "true") == (k != 0) else "false"
            return v.expr if k != 0 else self.not_(v.expr)
        return "(= %s %s)" % (v.expr, ilit(k))

    # -- floats
    def absx(self, e):
        return "(ite (>= %s 0.0) %s (- %s))" % (e, e, e)

    def rounding(self, t, u, exact_when=None):
        """value of a rounded operation whose exact result is t:  t + e  with |e| <= u*|t|
        (linear in t; equivalent to t*(1+d), |d| <= u)."""
        # IEEE operations are deterministic: the same exact term rounds to the same value, so the error
        # variable is shared between syntactically identical operations (lets two encodings of the same
        # computation be recognised as equal without any arithmetic reasoning)
        key = ("round", t, str(u))
        if key in self._def_memo:
            return self._def_memo[key]
        e = self.fresh("Real", "e")
        self.deltas.append(e)
        bound = "(* %s %s)" % (rat(u), self.absx(t))
        self.decls.append("(assert (and (<= (- %s) %s) (<= %s %s)))" % (bound, e, e, bound))
        if exact_when:
            self.decls.append("(assert (=> %s (= %s 0.0)))" % (exact_when, e))
        r = self.define("Real", "(+ %s %s)" % (t, e), "r")
        self._def_memo[key] = r
        return r

    def float_arith(self, op, a, b, sort):
        sym = {"Add": "+", "Sub": "-", "Mul": "*", "Div": "/"}[op]
        u = U64 if sort == "f64" else U32
        if op in ("Add", "Mul") and b < a:
            a, b = b, a       # IEEE addition and multiplication are commutative: one term for both orders
        if op in ("Mul", "Div"):
            t = self.define("Real", self.product(op, a, b), "t")
        else:
            t = self.define("Real", "(%s %s %s)" % (sym, a, b), "t")
        exact = None
        if op in ("Add", "Sub"):
            # x + 0 and 0 + x are exact in IEEE arithmetic
            exact = "(or (= %s 0.0) (= %s 0.0))" % (a, b)
        elif op == "Div":
            # x / 1 is exact
            exact = "(= %s 1.0)" % b
        return self.rounding(t, u, exact)

    def float_exact(self, op, a, b):
        sym = {"Add": "+", "Sub": "-", "Mul": "*", "Div": "/"}[op]
        return "(%s %s %s)" % (sym, a, b)

    def float_cmp(self, op, a, b):
        if op == "Ne":
            return "(not (= %s %s))" % (a, b)
        return "(%s %s %s)" % ({"Lt": "<", "Le": "<=", "Gt": ">", "Ge": ">=", "Eq": "="}[op], a, b)

    def neg(self, a, sort):
        return "(- %s)" % a

    def float_to_float(self, e, frm, to):
        if frm == "f32" and to == "f64":
            return e
        if frm == to:
            return e
        return self.rounding(e, U32)

    def floor(self, e):
        """integer k with k <= e < k+1 (explicit axiomatisation: friendlier to the nonlinear solver than to_int)"""
        m = re.match(r"^\(to_real ([A-Za-z_]\w*)\)$", e)
        if m:
            return m.group(1)    # floor of an integer-valued term
        if e in self._floor_memo:
            return self._floor_memo[e]
        k = self.fresh("Int", "fl")
        self.decls.append("(assert (and (<= (to_real %s) %s) (< %s (+ (to_real %s) 1.0))))" % (k, e, e, k))
        self._floor_memo[e] = k
        return k

    def trunc_int(self, e):
        m = re.match(r"^\(to_real ([A-Za-z_]\w*)\)$", e)
        if m:
            return m.group(1)    # trunc of an integer-valued term
        ev = self.define("Real", e, "v")
        kp = self.floor(ev)
        kn = self.floor("(- %s)" % ev)
        return self.define("Int", "(ite (>= %s 0.0) %s (- %s))" % (ev, kp, kn), "tr")

    def trunc(self, e):
        return "(to_real %s)" % self.trunc_int(e)

    def round_away(self, e):
        ev = self.define("Real", e, "v")
        kp = self.floor("(+ %s 0.5)" % ev)
        kn = self.floor("(+ (- %s) 0.5)" % ev)
        return "(to_real %s)" % self.define("Int", "(ite (>= %s 0.0) %s (- %s))" % (ev, kp, kn), "rd")

    def float_to_int(self, e, frm, ty):
        bits, signed = INT_BITS[ty]
        lo, hi = (-(2 ** (bits - 1)), 2 ** (bits - 1) - 1) if signed else (0, 2 ** bits - 1)
        t = self.trunc_int(e)
        return self.define("Int", "(ite (<= %s %s) %s (ite (>= %s %s) %s %s))" % (
            e, rat(lo), ilit(lo), e, rat(hi), ilit(hi), t), "i")

    def int_to_float(self, e, frm, ty):
        bits, _ = INT_BITS[frm]
        if bits > 53 and ty == "f64" or bits > 24 and ty == "f32":
            # value may not be representable: one rounding
            u = U64 if ty == "f64" else U32
            return self.rounding("(to_real %s)" % e, u)
        return "(to_real %s)" % e

    # -- ints
    def int_to_int(self, e, frm, to):
        fb, fs = INT_BITS[frm]
        tb, ts = INT_BITS[to]
        if (not fs and tb > fb) or (fs == ts and tb >= fb) or (not fs and not ts and tb >= fb):
            return e
        m = "(mod %s %d)" % (e, 2 ** tb)
        if ts:
            return "(ite (>= %s %d) (- %s %d) %s)" % (m, 2 ** (tb - 1), m, 2 ** tb, m)
        return m

    def int_cmp(self, op, a, b, sort):
        if op == "Ne":
            return "(not (= %s %s))" % (a, b)
        return "(%s %s %s)" % ({"Lt": "<", "Le": "<=", "Gt": ">", "Ge": ">=", "Eq": "="}[op], a, b)

    def _wrap(self, e, sort):
        bits, signed = INT_BITS[sort]
        m = "(mod %s %d)" % (e, 2 ** bits)
        if signed:
            return "(ite (>= %s %d) (- %s %d) %s)" % (m, 2 ** (bits - 1), m, 2 ** bits, m)
        return m

    def int_arith(self, op, a, b, sort):
        if op in ("Add", "Sub", "Mul"):
            raw = "(%s %s %s)" % ({"Add": "+", "Sub": "-", "Mul": "*"}[op], a, b)
            return self._wrap(raw, sort)
        if op == "Div":
            return "(div %s %s)" % (a, b)   # unsigned only
        if op == "Rem":
            return "(mod %s %s)" % (a, b)
        raise ValueError(op)

    def int_bitop(self, op, a, b, sort):
        """bit operations on the mathematical-integer encoding of machine words (unsigned sorts; shifts by a literal)"""
        bits, signed = INT_BITS[sort]
        lit = lambda x: int(x) if re.match(r"^\d+$", x) else None
        la, lb = lit(a), lit(b)
        if op in ("Shl", "Shr"):
            if lb is None:
                raise ValueError("shift by a symbolic amount")
            if op == "Shl":
                return self._wrap("(* %s %d)" % (a, 2 ** lb), sort)
            return "(div %s %d)" % (a, 2 ** lb)
        if signed:
            raise ValueError("bit operation on a signed sort")
        if la is not None and lb is not None:
            return str({"BitAnd": la & lb, "BitOr": la | lb, "BitXor": la ^ lb}[op])
        if la is not None:
            a, b, la, lb = b, a, lb, la
        if lb is not None:
            bit = lambda k: "(mod (div %s %d) 2)" % (a, 2 ** k)
            ks = [k for k in range(bits) if (lb >> k) & 1]
            if op == "BitAnd":
                return "(+ 0 %s)" % " ".join("(* %d %s)" % (2 ** k, bit(k)) for k in ks) if ks else "0"
            if op == "BitOr":
                return "(+ %s %s)" % (a, " ".join("(* %d (- 1 %s))" % (2 ** k, bit(k)) for k in ks)) if ks else a
            return "(+ %s %s)" % (a, " ".join("(* %d (- 1 (* 2 %s)))" % (2 ** k, bit(k)) for k in ks)) if ks else a
        f = {"BitAnd": "bvand", "BitOr": "bvor", "BitXor": "bvxor"}[op]
        return "(bv2nat (%s ((_ int2bv %d) %s) ((_ int2bv %d) %s)))" % (f, bits, a, bits, b)

    def int_arith_overflow(self, op, a, b, sort):
        bits, signed = INT_BITS[sort]
        lo, hi = (-(2 ** (bits - 1)), 2 ** (bits - 1) - 1) if signed else (0, 2 ** bits - 1)
        raw = "(%s %s %s)" % ({"Add": "+", "Sub": "-", "Mul": "*"}[op], a, b)
        r = self.define("Int", raw, "w")
        return self._wrap(r, sort), "(or (< %s %s) (> %s %s))" % (r, ilit(lo), r, ilit(hi))

    def bool_op(self, op, a, b):
        return {"Eq": "(= %s %s)", "Ne": "(not (= %s %s))", "BitAnd": "(and %s %s)", "BitOr": "(or %s %s)",
                "BitXor": "(xor %s %s)"}[op] % (a, b)

    # -- symbolic inputs
    def sym_float(self, name, lo=None, hi=None):
        self.decls.append("(declare-const %s Real)" % name)
        if lo is not None:
            self.decls.append("(assert (>= %s %s))" % (name, rat(Fraction(lo))))
        if hi is not None:
            self.decls.append("(assert (<= %s %s))" % (name, rat(Fraction(hi))))
        return name

    def sym_int(self, name, sort, lo=None, hi=None):
        bits, signed = INT_BITS[sort]
        l, h = (-(2 ** (bits - 1)), 2 ** (bits - 1) - 1) if signed else (0, 2 ** bits - 1)
        if lo is not None:
            l = max(l, lo)
        if hi is not None:
            h = min(h, hi)
        self.decls.append("(declare-const %s Int)" % name)
        self.decls.append("(assert (and (<= %s %s) (<= %s %s)))" % (ilit(l), name, name, ilit(h)))
        return name


def split_sexp(s):
    out, depth, cur = [], 0, ""
    for c in s:
        if c == "(":
            depth += 1
        if c == ")":
            depth -= 1
        if c == " " and depth == 0:
            if cur:
                out.append(cur)
            cur = ""
        else:
            cur += c
    if cur:
        out.append(cur)
    return out


# ----------------------------------------------------------------------------------------------
# solver driver

class Solver:
    """One long-lived solver process; queries are batched with push/pop."""

    def __init__(self, cmd, logic=None, log_path=None, timeout_ms=60000):
        self.cmd = cmd
        self.p = subprocess.Popen(cmd, stdin=subprocess.PIPE, stdout=subprocess.PIPE, stderr=subprocess.STDOUT,
                                  text=True, bufsize=1)
        self.log = open(log_path, "w") if log_path else None
        self.timeout_ms = timeout_ms
        self.queries = 0
        self.time_s = 0.0
        self.errors = []
        self.send("(set-option :print-success false)")
        if "z3" in cmd[0]:
            self.send("(set-option :timeout %d)" % timeout_ms)
        self.send("(set-logic %s)" % (logic or "ALL"))

    def send(self, s):
        if self.log:
            self.log.write(s + "\n")
        self.p.stdin.write(s + "\n")

    def _read_answer(self):
        self.p.stdin.write('(echo "<<done>>")\n')
        self.p.stdin.flush()
        lines = []
        while True:
            ln = self.p.stdout.readline()
            if not ln:
                self.errors.append("solver died")
                break
            ln = ln.rstrip("\n")
            if ln.strip().strip('"') == "<<done>>":
                break
            lines.append(ln)
        if self.log:
            for l in lines:
                self.log.write("; -> %s\n" % l)
        for l in lines:
            if "(error" in l:
                self.errors.append(l)
        return lines

    def declare(self, cmds):
        for c in cmds:
            self.send(c)
        out = self._read_answer()
        return out

    def check(self, asserts, want_model=False, values=(), local_decls=()):
        """returns (verdict, model_lines) with verdict in sat / unsat / unknown / error"""
        t0 = time.time()
        self.send("(push 1)")
        for c in local_decls:
            self.send(c)
        for a in asserts:
            self.send("(assert %s)" % a)
        self.send("(check-sat)")
        out = self._read_answer()
        verdict = "error"
        for l in out:
            if l.strip() in ("sat", "unsat", "unknown", "timeout"):
                verdict = l.strip()
        if any("(error" in l for l in out):
            verdict = "error"
        model = []
        if verdict == "sat" and values:
            self.send("(get-value (%s))" % " ".join(values))
            model = self._read_answer()
        self.send("(pop 1)")
        self._read_answer()
        self.queries += 1
        self.time_s += time.time() - t0
        return verdict, model

    def close(self):
        try:
            self.send("(exit)")
            self.p.stdin.flush()
            self.p.wait(timeout=5)
        except Exception:
            self.p.kill()
        if self.log:
            self.log.close()


def parse_values(lines):
    """parse `(get-value ...)` output into {name: Fraction|bool|str}"""
    text = " ".join(lines)
    out = {}
    # tokens
    toks = re.findall(r"\(|\)|\"[^\"]*\"|[^\s()]+", text)
    pos = [0]

    def parse():
        t = toks[pos[0]]
        pos[0] += 1
        if t == "(":
            lst = []
            while toks[pos[0]] != ")":
                lst.append(parse())
            pos[0] += 1
            return lst
        return t

    def ev(x):
        if isinstance(x, list):
            if len(x) == 2 and x[0] == "-":
                return -ev(x[1])
            if len(x) == 3 and x[0] == "/":
                return Fraction(ev(x[1])) / Fraction(ev(x[2]))
            if len(x) == 3 and x[0] == "-":
                return ev(x[1]) - ev(x[2])
            if x and x[0] == "root-obj":
                return None
            return None
        if x in ("true", "false"):
            return x == "true"
        if x.startswith('"'):
            return x[1:-1]
        try:
            return Fraction(x.rstrip("?"))
        except Exception:
            return x

    def ser(x):
        return "(%s)" % " ".join(ser(y) for y in x) if isinstance(x, list) else x

    try:
        tree = parse()
        for pair in tree:
            if isinstance(pair, list) and len(pair) == 2:
                out[ser(pair[0])] = ev(pair[1])
    except Exception:
        pass
    return out
