"""Shared plumbing: run context, evidence files, known findings, verdict bookkeeping."""
import json, os, sys, time, hashlib, re

VERIF = os.path.dirname(os.path.dirname(os.path.abspath(__file__)))
KNOWN_FINDINGS = os.path.join(VERIF, "known_findings.txt")


class Inconclusive(Exception):
    pass


def load_known_findings():
    """Lines `property=<id> <key>` suppress exactly that violation; `fixed: ...` lines suppress nothing."""
    out = []
    if os.path.isfile(KNOWN_FINDINGS):
        for ln in open(KNOWN_FINDINGS):
            ln = ln.strip()
            if not ln or ln.startswith("#") or ln.startswith("fixed:"):
                continue
            m = re.match(r"property=(\S+)\s+(.*)$", ln)
            if m:
                out.append((m.group(1), m.group(2).strip()))
    return out


class Run:
    def __init__(self, prop, tier, seed):
        self.prop, self.tier, self.seed = prop, tier, seed
        self.t0 = time.time()
        self.logdir = os.path.join(VERIF, "logs", prop)
        os.makedirs(self.logdir, exist_ok=True)
        self.obligations = []      # dicts: name, engine, status, detail...
        self.violations = []       # dicts: key, what, replay
        self.inconclusive = []     # strings
        self.assumptions = []
        self.functions = []
        self.bounds = []
        self.stubs = []
        self.samples = []
        self.traces_validated = 0
        self.solver_time_s = 0.0
        self.vccs = 0
        self.not_covered = []
        self.extra = {}

    def log(self, *a):
        print("[%s %6.1fs]" % (self.prop, time.time() - self.t0), *a, flush=True)

    def add_obligation(self, name, engine, status, **kw):
        d = dict(name=name, engine=engine, status=status)
        d.update(kw)
        self.obligations.append(d)
        return d

    def violation(self, key, what, replay_obj):
        if any(v["key"] == key for v in self.violations):
            return
        rdir = os.path.join(VERIF, "replays", self.prop)
        os.makedirs(rdir, exist_ok=True)
        h = hashlib.sha1(key.encode()).hexdigest()[:10]
        path = os.path.join(rdir, "%s.json" % h)
        replay_obj = dict(replay_obj)
        replay_obj.update(property=self.prop, key=key, what=what)
        with open(path, "w") as f:
            json.dump(replay_obj, f, indent=1)
        self.violations.append(dict(key=key, what=what, replay=path))

    def finish(self, level="model_checking"):
        known = load_known_findings()
        unknown = []
        for v in self.violations:
            if (self.prop, v["key"]) in known:
                print("KNOWN-FINDING: property=%s %s" % (self.prop, v["key"]))
                v["known"] = True
            else:
                unknown.append(v)
        decided = [o for o in self.obligations if o["status"] in ("holds", "violated", "twin-ok")]
        states = len(decided)
        ev = {
            "property_id": self.prop,
            "tier": self.tier,
            "seed": self.seed,
            "level": level,
            "coverage": {
                "states": states,
                "transitions": int(self.vccs),
                "traces_validated_against_impl": int(self.traces_validated),
                "samples": self.samples[:12] if self.samples else [o["name"] for o in self.obligations[:8]],
                "explanation": "states = solver-decided obligations (Kani harnesses + SMT queries); "
                               "transitions = verification conditions / assertions discharged by the solvers",
                "obligations": len(self.obligations),
                "discharged": len([o for o in self.obligations if o["status"] in ("holds", "twin-ok")]),
                "functions_encoded": self.functions,
                "bounds": self.bounds,
                "stubs": self.stubs,
                "solver_time_s": round(self.solver_time_s, 2),
                "inconclusive": self.inconclusive,
                "not_covered": self.not_covered,
                "obligation_list": self.obligations,
                "exhaustive": False,
            },
            "assumptions": self.assumptions,
            "wall_s": round(time.time() - self.t0, 2),
            "violations": len(unknown),
        }
        ev["coverage"].update(self.extra)
        os.makedirs(os.path.join(VERIF, "evidence"), exist_ok=True)
        if states >= 1 and self.vccs >= 1:
            with open(os.path.join(VERIF, "evidence", "%s.json" % self.prop), "w") as f:
                json.dump(ev, f, indent=1)
        for v in unknown:
            print("VIOLATION property=%s replay=%s" % (self.prop, v["replay"]))
            print("  what: %s" % v["what"])
        if unknown:
            return 1
        if self.inconclusive:
            for s in self.inconclusive:
                print("INCONCLUSIVE: %s" % s)
            return 2
        print("OK property=%s tier=%s obligations=%d wall=%.0fs" % (
            self.prop, self.tier, len(self.obligations), time.time() - self.t0))
        return 0
