"""HashMap models for Engine M: a map is a short list of (key, value) entries (mir.MapVal); whether a probe key hits an
entry is decided symbolically through a caller-supplied key-equality term, so every lookup forks over "hits entry i"
(first match) / "hits nothing".  Bounded by the number of tracked entries - stated by the checks that use it."""
import re
from mir import SV, Agg, Enum, Opaque, VecVal, MapVal, MapElemRef, LocalCell, ProjRef, MutRef, ElemRef, Unsupported, fork_env
from models import IterVal, mk_option


class EntryVal:
    """`hash_map::Entry`: idx None = not looked up yet, -1 = vacant, i = occupied by entry i"""
    def __init__(self, mapref, key, idx=None):
        self.mapref, self.key, self.idx = mapref, key, idx


def _val(it, x):
    return it.deref(x, it.cur_env) if isinstance(x, (MutRef, ElemRef, MapElemRef, LocalCell, ProjRef)) else x


def mk_map_models(key_eq, prefix=r"(std::collections::)?HashMap::<.*>"):
    """key_eq(it, k1, k2) -> SMT Bool term"""

    def lookups(it, mp, key):
        """[(pc, idx)] with idx -1 for a miss"""
        out, misses = [], []
        for i, (k, _) in enumerate(mp.entries):
            e = key_eq(it, k, key)
            out.append((misses + [e], i))
            misses = misses + ["(not %s)" % e]
        out.append((misses, -1))
        return out

    def m_get_mut(it, a, callee):
        mp, key = _val(it, a[0]), _val(it, a[1])
        res = []
        for pc, i in lookups(it, mp, key):
            res.append((pc, it._mk_enum("Option", "Some", [MapElemRef(a[0], i)]) if i >= 0 else it._mk_enum("Option", "None", []), "return", None))
        return res

    def m_get(it, a, callee):
        mp, key = _val(it, a[0]), _val(it, a[1])
        res = []
        for pc, i in lookups(it, mp, key):
            res.append((pc, it._mk_enum("Option", "Some", [mp.entries[i][1]]) if i >= 0 else it._mk_enum("Option", "None", []), "return", None))
        return res

    def m_contains_key(it, a, callee):
        mp, key = _val(it, a[0]), _val(it, a[1])
        return [(pc, SV("bool", "true" if i >= 0 else "false"), "return", None) for pc, i in lookups(it, mp, key)]

    def m_insert(it, a, callee):
        mp, key, val = _val(it, a[0]), _val(it, a[1]), _val(it, a[2])
        res = []
        for pc, i in lookups(it, mp, key):
            env2 = fork_env(it.cur_env)
            if i >= 0:
                ents = list(mp.entries)
                old = ents[i][1]
                ents[i] = (ents[i][0], val)
                it.write_ref(a[0], MapVal(ents), env2)
                res.append((pc, it._mk_enum("Option", "Some", [old]), "return", None, {"env": env2}))
            else:
                it.write_ref(a[0], MapVal(mp.entries + [(key, val)]), env2)
                res.append((pc, it._mk_enum("Option", "None", []), "return", None, {"env": env2}))
        return res

    def m_entry(it, a, callee):
        return EntryVal(a[0], _val(it, a[1]))

    def resolve(it, ent):
        if ent.idx is not None:
            return [([], ent)]
        mp = _val(it, ent.mapref)
        return [(pc, EntryVal(ent.mapref, ent.key, i)) for pc, i in lookups(it, mp, ent.key)]

    def m_and_modify(it, a, callee):
        ent, clo = a
        clo = _val(it, clo)
        res = []
        env0 = it.cur_env            # nested calls move it.cur_env to their own activation
        for pc, e in resolve(it, ent):
            it.cur_env = env0
            if e.idx < 0:
                res.append((pc, e, "return", None))
                continue
            ref = MapElemRef(e.mapref, e.idx)
            cur = it.deref(ref, env0)
            f = it.closure_fn(clo)
            for r in it.call_fn_full(f, [clo, LocalCell("am#v")], 2, cells={"am#v": cur}):
                if r[2] == "panic":
                    res.append((pc + r[0], None, "panic", r[3]))
                    continue
                env2 = fork_env(env0)
                fenv = r[6] if len(r) > 6 else {}
                if "am#v" in fenv:
                    it.write_ref(ref, fenv["am#v"], env2)
                res.append((pc + r[0], e, "return", None, {"env": env2}))
        it.cur_env = env0
        return res

    def or_insert_with(it, ent, mk_default):
        res = []
        for pc, e in resolve(it, ent):
            if e.idx >= 0:
                res.append((pc, MapElemRef(e.mapref, e.idx), "return", None))
            else:
                env2 = fork_env(it.cur_env)
                mp = it.deref(e.mapref, env2)
                it.write_ref(e.mapref, MapVal(mp.entries + [(e.key, mk_default())]), env2)
                res.append((pc, MapElemRef(e.mapref, len(mp.entries)), "return", None, {"env": env2}))
        return res

    def m_or_insert(it, a, callee):
        return or_insert_with(it, a[0], lambda: _val(it, a[1]))

    def m_or_default(it, a, callee):
        if "HashMap<" in callee.split("::or_default")[0].split("Entry::<")[-1].split(",", 1)[-1]:
            return or_insert_with(it, a[0], lambda: MapVal([]))
        raise Unsupported("Entry::or_default for %s" % callee)

    def m_iter(it, a, callee):
        mp = _val(it, a[0])
        return IterVal([Agg("tuple", {"0": k, "1": v}) for k, v in mp.entries])

    def m_from_array(it, a, callee):
        arr = _val(it, a[0])
        items = arr.items if isinstance(arr, VecVal) else [arr.fields[k] for k in sorted(arr.fields, key=int)]
        ents = []
        for t in items:
            ents.append((t.fields["0"], t.fields["1"]))
        if len(ents) > 1:
            raise Unsupported("HashMap::from with %d pairs (duplicates would need merging)" % len(ents))
        return MapVal(ents)

    def m_new(it, a, callee):
        return MapVal([])

    def m_clone(it, a, callee):
        return _val(it, a[0])

    H = prefix
    return {
        r"^%s::get_mut::<" % H: m_get_mut,
        r"^%s::get::<" % H: m_get,
        r"^%s::contains_key::<" % H: m_contains_key,
        r"^%s::insert$" % H: m_insert,
        r"^%s::entry$" % H: m_entry,
        r"^%s::iter$" % H: m_iter,
        r"^%s::new$" % H: m_new,
        r"^<(std::collections::)?HashMap<.*> as Default>::default$": m_new,
        r"^<(std::collections::)?HashMap<.*> as Clone>::clone$": m_clone,
        r"^<(std::collections::)?HashMap<.*> as From<\[\(.*\); \d+\]>>::from$": m_from_array,
        r"^(std::collections::)?hash_map::Entry::<.*>::and_modify::<": m_and_modify,
        r"^(std::collections::)?hash_map::Entry::<.*>::or_insert$": m_or_insert,
        r"^(std::collections::)?hash_map::Entry::<.*>::or_default$": m_or_default,
    }
