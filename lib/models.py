"""Exact models of the std / core functions the encoded kernels call (part of the trusted base)."""
import re
from mir import SV, Agg, Enum, Opaque, Unsupported, VecVal


def m_trunc(it, args, callee):
    return SV("f64", it.sem.trunc(args[0].expr))


def m_round(it, args, callee):
    return SV("f64", it.sem.round_away(args[0].expr))


def m_fract(it, args, callee):
    # x - trunc(x) is exact in binary floating point
    x = it.sem.define("Real", args[0].expr, "v")
    return SV("f64", "(- %s %s)" % (x, it.sem.trunc(x)))


def m_abs(it, args, callee):
    e = args[0].expr
    return SV(args[0].sort, "(ite (>= %s 0.0) %s (- %s))" % (e, e, e))


def m_is_finite(it, args, callee):
    # real semantics: every modelled value is a finite real (checks assume finite inputs and state
    # ranges that exclude overflow)
    return SV("bool", "true")


def m_contains(it, args, callee):
    rng, x = args
    if not isinstance(rng, Agg):
        raise Unsupported("contains on %r" % rng)
    lo, hi = rng.fields["0"], rng.fields["1"]
    return SV("bool", "(and (<= %s %s) (<= %s %s))" % (lo.expr, x.expr, x.expr, hi.expr))


def m_range_new(it, args, callee):
    return Agg("RangeInclusive", {"0": args[0], "1": args[1]})


def m_try_branch_option(it, args, callee):
    v = args[0]
    if not isinstance(v, Enum):
        raise Unsupported("Try::branch on %r" % v)
    sem = it.sem
    # Option: None=0 -> Break(None) (ControlFlow index 1), Some=1 -> Continue(x) (index 0)
    if v.ty == "Option":
        discr = SV("isize", "(ite (= %s 1) 0 1)" % v.discr.expr) if not re.match(r"^\d+$", v.discr.expr) else \
            SV("isize", "0" if v.discr.expr == "1" else "1")
        variants = {}
        if "Some" in v.variants:
            variants["Continue"] = Agg("ControlFlow::Continue", {"0": v.variants["Some"].fields["0"]})
        variants["Break"] = Agg("ControlFlow::Break", {"0": Opaque("residual")})
        return Enum("ControlFlow", discr, variants, ["Continue", "Break"])
    raise Unsupported("Try::branch on %s" % v.ty)


def m_from_residual_none(it, args, callee):
    return it._mk_enum("Option", "None", [])


def m_identity(it, args, callee):
    return args[0]


def m_f64_into_number(it, args, callee):
    # impl From<f64> for Number { Self::Regular(value) }  (the blanket Into forwards to it)
    return it._mk_enum("Number", "Regular", [args[0]])


def m_opaque(it, args, callee):
    return Opaque(callee, args)


def m_str_eq(it, args, callee):
    a, b = args
    return SV("bool", "(= %s %s)" % (a.expr, b.expr))


STD_MODELS = {
    r"f64::<impl f64>::trunc$": m_trunc,
    r"f64::<impl f64>::round$": m_round,
    r"f64::<impl f64>::fract$": m_fract,
    r"f64::<impl f64>::abs$": m_abs,
    r"f64::<impl f64>::is_finite$": m_is_finite,
    r"RangeInclusive::<f32>::contains::<f32>$": m_contains,
    r"RangeInclusive::<f32>::new$": m_range_new,
    r"^<std::option::Option<.*> as Try>::branch$": m_try_branch_option,
    r"as FromResidual<std::option::Option<Infallible>>>::from_residual$": m_from_residual_none,
    r"^<LazyLock<.*> as Deref>::deref$": m_identity,
    r"^<f64 as Into<quantity::Number>>::into$": m_f64_into_number,
    r"^<str as PartialEq>::eq$": m_str_eq,
}


def sym_number(it, sem, name, whole_hi=None):
    """symbolic quantity::Number: Regular(f64) | Fraction{whole,num,den,err}"""
    d = sem.sym_int(name + "_tag", "isize", 0, 1)
    reg = sem.sym_float(name + "_reg")
    whole = sem.sym_int(name + "_whole", "u32")
    num = sem.sym_int(name + "_num", "u32")
    den = sem.sym_int(name + "_den", "u32")
    err = sem.sym_float(name + "_err")
    names = [v for v, _ in it.decls.enums["Number"]]
    fr_fields = dict(it.decls.enums["Number"])["Fraction"]
    fr = {str(fr_fields.index("whole")): SV("u32", whole), str(fr_fields.index("num")): SV("u32", num),
          str(fr_fields.index("den")): SV("u32", den), str(fr_fields.index("err")): SV("f64", err)}
    variants = {"Regular": Agg("Number::Regular", {"0": SV("f64", reg)}), "Fraction": Agg("Number::Fraction", fr)}
    # discriminant index follows declaration order
    idx = {n: i for i, n in enumerate(names)}
    e = Enum("Number", SV("isize", d), variants, names)
    return e, dict(tag=d, reg=reg, whole=whole, num=num, den=den, err=err, idx=idx)


# ----------------------------------------------------------------------------------------------
# Option / closures / small std helpers

def mk_option(it, discr_sv, payload):
    return Enum("Option", discr_sv, {"None": Agg("Option::None", {}), "Some": Agg("Option::Some", {"0": payload})}, ["None", "Some"])


def opt_cases(it, v):
    """[(pc, is_some, payload)] for an Option value with concrete or symbolic discriminant"""
    v = it.lazy_enum(v, "Option")
    d = v.discr.expr
    if re.match(r"^\d+$", d):
        return [([], d == "1", v.variants["Some"].fields["0"] if d == "1" else None)]
    out = [(["(= %s 0)" % d], False, None)]
    if "Some" in v.variants:
        out.append((["(= %s 1)" % d], True, v.variants["Some"].fields["0"]))
    return out


def _same_env(a, b):
    """no local, cell or event of the caller changed (identity of the stored values)"""
    if set(a) != set(b):
        return False
    for k in a:
        if k == "__events":
            if len(a[k]) != len(b[k]):
                return False
        elif a[k] is not b[k]:
            return False
    return True


def m_option_map(it, args, callee):
    opt, clo = args
    opt = it.lazy_enum(opt, "Option")
    if not isinstance(opt, Enum):
        raise Unsupported("Option::map on %r" % opt)
    res = []
    if getattr(it, "lenient", False) and isinstance(clo, Agg) and clo.ty.startswith("{closure@") and "Some" in opt.variants \
            and not re.match(r"^\d+$", opt.discr.expr):
        # a closure that runs on a single path without touching the caller's state is a plain function of the payload: keep
        # ONE symbolic Option (same discriminant) instead of forking the caller on Some / None
        env0 = it.cur_env
        runs = it.run_closure_seq(clo, [opt.variants["Some"].fields["0"]])
        it.cur_env = env0
        if len(runs) == 1 and not runs[0][0] and runs[0][2][0][0] == "return" and _same_env(env0, runs[0][1]):
            return Enum("Option", opt.discr, {"None": Agg("Option::None", {}), "Some": Agg("Option::Some", {"0": runs[0][2][0][1]})}, ["None", "Some"])
    for pc, is_some, payload in opt_cases(it, opt):
        if not is_some:
            res.append((pc, it._mk_enum("Option", "None", []), "return", None))
            continue
        if isinstance(clo, Agg) and clo.ty.startswith("{closure@"):
            # value-result for captured `&mut` references (e.g. a closure that calls `self.method()`), events kept
            for pc2, env2, acc in it.run_closure_seq(clo, [payload]):
                kind, val = acc[0]
                if kind == "panic":
                    res.append((pc + pc2, None, "panic", val))
                else:
                    res.append((pc + pc2, it._mk_enum("Option", "Some", [val]), "return", None, {"env": env2}))
        elif isinstance(clo, Opaque) and clo.what.startswith("fnitem:"):
            f = it.fn_item(clo.what[len("fnitem:"):])
            for (pc2, val, kind, msg) in it.call_fn(f, [payload]):
                if kind == "panic":
                    res.append((pc + pc2, None, "panic", msg))
                else:
                    res.append((pc + pc2, it._mk_enum("Option", "Some", [val]), "return", None))
        else:
            raise Unsupported("Option::map with callee %r" % clo)
    return res


def m_option_and_then(it, args, callee):
    opt, clo = args
    opt = it.lazy_enum(opt, "Option")
    res = []
    for pc, is_some, payload in opt_cases(it, opt):
        if not is_some:
            res.append((pc, it._mk_enum("Option", "None", []), "return", None))
            continue
        if isinstance(clo, Agg) and clo.ty.startswith("{closure@"):
            for pc2, env2, acc in it.run_closure_seq(clo, [payload]):
                kind, val = acc[0]
                if kind == "panic":
                    res.append((pc + pc2, None, "panic", val))
                else:
                    res.append((pc + pc2, val, "return", None, {"env": env2}))
        else:
            raise Unsupported("Option::and_then with callee %r" % clo)
    return res


def m_slice_first(it, args, callee):
    v = it.deref(args[0], it.cur_env)
    if isinstance(v, VecVal):
        return it._mk_enum("Option", "Some", [v.items[0]]) if v.items else it._mk_enum("Option", "None", [])
    return mk_option(it, SV("isize", "(ite (> %s 0) 1 0)" % v.fields["len"].expr), v.fields["first"])


def m_slice_last(it, args, callee):
    v = it.deref(args[0], it.cur_env)
    if isinstance(v, VecVal):
        return it._mk_enum("Option", "Some", [v.items[-1]]) if v.items else it._mk_enum("Option", "None", [])
    return mk_option(it, SV("isize", "(ite (> %s 0) 1 0)" % v.fields["len"].expr), v.fields["last"])


def m_option_unzip(it, args, callee):
    opt = args[0]
    res = []
    for pc, is_some, payload in opt_cases(it, opt):
        if is_some:
            a, b = payload.fields["0"], payload.fields["1"]
            res.append((pc, Agg("tuple", {"0": it._mk_enum("Option", "Some", [a]), "1": it._mk_enum("Option", "Some", [b])}), "return", None))
        else:
            res.append((pc, Agg("tuple", {"0": it._mk_enum("Option", "None", []), "1": it._mk_enum("Option", "None", [])}), "return", None))
    return res


def m_option_unwrap_or(it, args, callee):
    opt, dflt = args
    return [(pc, payload if is_some else dflt, "return", None) for pc, is_some, payload in opt_cases(it, opt)]


def m_option_is_some(it, args, callee):
    a0 = it.deref(args[0], it.cur_env) if not isinstance(args[0], (Enum, Opaque)) else args[0]
    d = it.lazy_enum(a0, "Option").discr.expr
    if re.match(r"^\d+$", d):
        return SV("bool", "true" if d == "1" else "false")
    return SV("bool", "(= %s 1)" % d)


def m_option_copied(it, args, callee):
    return args[0]


def m_value_is_text(it, args, callee):
    v = args[0] if isinstance(args[0], (Enum, Opaque)) else it.deref(args[0], it.cur_env)
    v = it.lazy_enum(v, "Value", "quantity")
    idx = [n for n, _ in it.decls.enums.lookup("Value", "quantity")].index("Text")
    d = v.discr.expr
    if re.match(r"^\d+$", d):
        return SV("bool", "true" if int(d) == idx else "false")
    return SV("bool", "(= %s %d)" % (d, idx))


class _NoFn:
    name = "<model>"


def located_inner(it, args, callee):
    order = it.decls.structs["Located"]
    base = args[0] if isinstance(args[0], (Agg, Opaque)) else it.deref(args[0], it.cur_env)
    return it._field(_NoFn, base, str(order.index("inner")))


MORE_MODELS = {
    r"^(?:std::option::)?Option::<.*>::map::<": m_option_map,
    r"^(?:std::option::)?Option::<.*>::unzip$": m_option_unzip,
    r"^(?:std::option::)?Option::<.*>::and_then::<": m_option_and_then,
    r"^core::slice::<impl \[.*\]>::first$": m_slice_first,
    r"^core::slice::<impl \[.*\]>::last$": m_slice_last,
    r"^<Vec<.*> as Deref>::deref$": m_identity,
    r"^Vec::<.*>::as_slice$": m_identity,
    r"^(?:std::option::)?Option::<.*>::unwrap_or$": m_option_unwrap_or,
    r"^(?:std::option::)?Option::<.*>::is_some$": m_option_is_some,
    r"^(?:std::option::)?Option::<.*>::copied$": m_option_copied,
    r"^<quantity::Value as Clone>::clone$": m_identity,
    r"^<quantity::Value as quantity::QuantityValue>::is_text$": m_value_is_text,
    r"^<Located<quantity::Value> as Deref>::deref$": located_inner,
    r"^Located::<quantity::Value>::into_inner$": located_inner,
}


# ----------------------------------------------------------------------------------------------
# Vec of concrete length (VecVal) behind shared / mutable references

from mir import VecVal, MutRef, ElemRef


def _vec(it, ref):
    v = it.deref(ref, it.cur_env)
    if not isinstance(v, VecVal):
        raise Unsupported("expected a Vec of known shape, got %r" % (v,))
    return v


def _const_index(sv):
    if isinstance(sv, SV) and re.match(r"^\d+$", sv.expr):
        return int(sv.expr)
    raise Unsupported("symbolic Vec index %r" % (sv,))


def m_vec_is_empty(it, args, callee):
    return SV("bool", "true" if not _vec(it, args[0]).items else "false")


def m_vec_len(it, args, callee):
    return SV("usize", str(len(_vec(it, args[0]).items)))


def m_vec_push(it, args, callee):
    v = _vec(it, args[0])
    it.write_ref(args[0], VecVal(v.items + [args[1]]), it.cur_env)
    return Opaque("unit")


def m_vec_insert(it, args, callee):
    v = _vec(it, args[0])
    i = _const_index(args[1])
    if i > len(v.items):
        return [([], None, "panic", "Vec::insert index out of bounds")]
    it.write_ref(args[0], VecVal(v.items[:i] + [args[2]] + v.items[i:]), it.cur_env)
    return Opaque("unit")


def m_vec_index(it, args, callee):
    v = _vec(it, args[0])
    i = _const_index(args[1])
    if i >= len(v.items):
        return [([], None, "panic", "index out of bounds: the len is %d but the index is %d" % (len(v.items), i))]
    return v.items[i]


def m_vec_index_mut(it, args, callee):
    v = _vec(it, args[0])
    i = _const_index(args[1])
    if i >= len(v.items):
        return [([], None, "panic", "index out of bounds: the len is %d but the index is %d" % (len(v.items), i))]
    return ElemRef(args[0], i)


def m_result_expect(it, args, callee):
    res = args[0]
    out = []
    d = res.discr.expr
    cases = [(0, "Ok"), (1, "Err")]
    for idx, name in cases:
        if name not in res.variants:
            continue
        if re.match(r"^\d+$", d):
            if int(d) != idx:
                continue
            pc = []
        else:
            pc = ["(= %s %d)" % (d, idx)]
        if name == "Ok":
            out.append((pc, res.variants["Ok"].fields["0"], "return", None))
        else:
            out.append((pc, None, "panic", "expect failed: %s" % (args[1].expr if isinstance(args[1], SV) else "")))
    return out


VEC_MODELS = {
    r"^Vec::<.*>::is_empty$": m_vec_is_empty,
    r"^Vec::<.*>::len$": m_vec_len,
    r"^Vec::<.*>::push$": m_vec_push,
    r"^Vec::<.*>::insert$": m_vec_insert,
    r"^<Vec<.*> as std::ops::Index<usize>>::index$": m_vec_index,
    r"^<Vec<.*> as IndexMut<usize>>::index_mut$": m_vec_index_mut,
    r"^Result::<.*>::expect$": m_result_expect,
    r"^<quantity::Value as ToOwned>::to_owned$": m_identity,
}


# ----------------------------------------------------------------------------------------------
# integer helpers (exact models over mathematical integers with the type's range)

def _int_range(sort):
    import smt
    bits, signed = smt.INT_BITS[sort]
    return (-(2 ** (bits - 1)), 2 ** (bits - 1) - 1) if signed else (0, 2 ** bits - 1)


def _m_checked(op):
    def model(it, args, callee):
        a, b = args
        if not (isinstance(a, SV) and isinstance(b, SV)):
            if getattr(it, "lenient", False):
                return it.uf_call(callee, args)
            raise Unsupported("%s on %r" % (callee, args))
        lo, hi = _int_range(a.sort)
        raw = it.sem.define("Int", "(%s %s %s)" % (op, a.expr, b.expr), "ck")
        ok = "(and (<= %s %s) (<= %s %s))" % (lo if lo >= 0 else "(- %d)" % -lo, raw, raw, hi)
        return mk_option(it, SV("isize", "(ite %s 1 0)" % ok), SV(a.sort, raw))
    return model


def _m_saturating(op):
    def model(it, args, callee):
        a, b = args
        if not (isinstance(a, SV) and isinstance(b, SV)):
            if getattr(it, "lenient", False):
                return it.uf_call(callee, args)
            raise Unsupported("%s on %r" % (callee, args))
        lo, hi = _int_range(a.sort)
        raw = "(%s %s %s)" % (op, a.expr, b.expr)
        los = str(lo) if lo >= 0 else "(- %d)" % -lo
        return SV(a.sort, it.sem.define("Int", "(ite (< %s %s) %s (ite (> %s %d) %d %s))" % (raw, los, los, raw, hi, hi, raw), "sat"))
    return model


def _m_wrapping(op):
    def model(it, args, callee):
        a, b = args
        if not (isinstance(a, SV) and isinstance(b, SV)):
            if getattr(it, "lenient", False):
                return it.uf_call(callee, args)
            raise Unsupported("%s on %r" % (callee, args))
        return SV(a.sort, it.sem.int_arith({"+": "Add", "-": "Sub", "*": "Mul"}[op], a.expr, b.expr, a.sort))
    return model


INT_MODELS = {}
for _name, _op in (("add", "+"), ("sub", "-"), ("mul", "*")):
    INT_MODELS[r"^core::num::<impl \w+>::checked_%s$" % _name] = _m_checked(_op)
    INT_MODELS[r"^core::num::<impl \w+>::saturating_%s$" % _name] = _m_saturating(_op)
    INT_MODELS[r"^core::num::<impl \w+>::wrapping_%s$" % _name] = _m_wrapping(_op)
STD_MODELS.update(INT_MODELS)


# ----------------------------------------------------------------------------------------------
# iteration over a Vec of concrete length

class IterVal:
    def __init__(self, items, pos=0):
        self.items, self.pos = items, pos


def m_vec_into_iter(it, args, callee):
    return IterVal(list(_vec(it, args[0]).items))


def m_iter_next(it, args, callee):
    ref = args[0]
    cur = it.deref(ref, it.cur_env)
    if not isinstance(cur, IterVal):
        raise Unsupported("Iterator::next on %r" % (cur,))
    if cur.pos >= len(cur.items):
        return it._mk_enum("Option", "None", [])
    it.write_ref(ref, IterVal(cur.items, cur.pos + 1), it.cur_env)
    return it._mk_enum("Option", "Some", [cur.items[cur.pos]])


VEC_MODELS.update({
    r"^<&Vec<.*> as IntoIterator>::into_iter$": m_vec_into_iter,
    r"^<std::slice::Iter<'_, .*> as Iterator>::next$": m_iter_next,
})


def m_split_first(it, args, callee):
    v = _vec(it, args[0])
    if not v.items:
        return it._mk_enum("Option", "None", [])
    return it._mk_enum("Option", "Some", [Agg("tuple", {"0": v.items[0], "1": VecVal(v.items[1:])})])


def m_split_last(it, args, callee):
    v = _vec(it, args[0])
    if not v.items:
        return it._mk_enum("Option", "None", [])
    return it._mk_enum("Option", "Some", [Agg("tuple", {"0": v.items[-1], "1": VecVal(v.items[:-1])})])


def m_extend_from_slice(it, args, callee):
    v = _vec(it, args[0])
    other = _vec(it, args[1])
    it.write_ref(args[0], VecVal(v.items + other.items), it.cur_env)
    return Opaque("unit")


def m_slice_iter(it, args, callee):
    return IterVal(list(_vec(it, args[0]).items))


VEC_MODELS.update({
    r"^core::slice::<impl \[.*\]>::split_first$": m_split_first,
    r"^core::slice::<impl \[.*\]>::split_last$": m_split_last,
    r"^Vec::<.*>::extend_from_slice$": m_extend_from_slice,
    r"^core::slice::<impl \[.*\]>::iter$": m_slice_iter,
    r"^<&\[.*\] as IntoIterator>::into_iter$": m_slice_iter,
    r"^<Vec<.*> as Deref>::deref$": m_identity,
    r"^<Vec<.*> as DerefMut>::deref_mut$": m_identity,
})


# ----------------------------------------------------------------------------------------------
# `?` on Result

def m_try_result(it, args, callee):
    r = args[0]
    out = []
    d = r.discr.expr
    for idx, name in ((0, "Ok"), (1, "Err")):
        if name not in r.variants:
            continue
        if re.match(r"^\d+$", d):
            if int(d) != idx:
                continue
            pc = []
        else:
            pc = ["(= %s %d)" % (d, idx)]
        if name == "Ok":
            payload = r.variants["Ok"].fields.get("0", Opaque("unit"))
            out.append((pc, Enum("ControlFlow", SV("isize", "0"), {"Continue": Agg("Continue", {"0": payload})}, ["Continue", "Break"]), "return", None))
        else:
            resid = it._mk_enum("Result", "Err", [r.variants["Err"].fields.get("0", Opaque("error"))])
            out.append((pc, Enum("ControlFlow", SV("isize", "1"), {"Break": Agg("Break", {"0": resid})}, ["Continue", "Break"]), "return", None))
    return out


def m_from_residual_result(it, args, callee):
    r = args[0]
    payload = r.variants["Err"].fields["0"] if isinstance(r, Enum) and "Err" in r.variants else Opaque("error")
    return it._mk_enum("Result", "Err", [Opaque("converted error", [payload])])


RESULT_MODELS = {
    r"^<Result<.*> as Try>::branch$": m_try_result,
    r"as FromResidual<Result<Infallible, .*>>>::from_residual$": m_from_residual_result,
    r"^<std::option::Option<std::string::String> as Clone>::clone$": m_identity,
    r"^<quantity::Quantity as Clone>::clone$": m_identity,
}


def m_then_some(it, args, callee):
    b, v = args
    if b.expr in ("true", "false"):
        return it._mk_enum("Option", "Some", [v]) if b.expr == "true" else it._mk_enum("Option", "None", [])
    return mk_option(it, SV("isize", "(ite %s 1 0)" % b.expr), v)


def m_result_ok(it, args, callee):
    r = args[0]
    d = r.discr.expr
    payload = r.variants["Ok"].fields["0"] if "Ok" in r.variants else Opaque("none")
    if re.match(r"^\d+$", d):
        return it._mk_enum("Option", "Some", [payload]) if d == "0" else it._mk_enum("Option", "None", [])
    return mk_option(it, SV("isize", "(ite (= %s 0) 1 0)" % d), payload)


def m_option_ok_or(it, args, callee):
    opt, e = args
    out = []
    for pc, is_some, payload in opt_cases(it, opt):
        out.append((pc, it._mk_enum("Result", "Ok", [payload]) if is_some else it._mk_enum("Result", "Err", [e]), "return", None))
    return out


_old_and_then = m_option_and_then


def m_option_and_then2(it, args, callee):
    opt, clo = args
    if isinstance(clo, Opaque) and clo.what.startswith("fnitem:"):
        target = it.auto_resolve(clo.what[len("fnitem:"):], [None])
        if target is None:
            raise Unsupported("Option::and_then with function item %s" % clo.what)
        res = []
        for pc, is_some, payload in opt_cases(it, opt):
            if not is_some:
                res.append((pc, it._mk_enum("Option", "None", []), "return", None))
            else:
                for (pc2, val, kind, msg) in it.call_fn(target, [payload]):
                    res.append((pc + pc2, val, kind, msg))
        return res
    return _old_and_then(it, args, callee)


def m_option_or_else(it, args, callee):
    opt, clo = args
    res = []
    for pc, is_some, payload in opt_cases(it, opt):
        if is_some:
            res.append((pc, it._mk_enum("Option", "Some", [payload]), "return", None))
        elif isinstance(clo, Agg) and clo.ty.startswith("{closure@"):
            f = it.closure_fn(clo)
            for (pc2, val, kind, msg) in it.call_fn(f, [clo]):
                res.append((pc + pc2, val, kind, msg))
        else:
            raise Unsupported("Option::or_else with callee %r" % clo)
    return res


MORE_MODELS.update({
    r"^(?:std::option::)?Option::<.*>::or_else::<": m_option_or_else,
    r"^core::bool::<impl bool>::then_some::<": m_then_some,
    r"^Result::<.*>::ok$": m_result_ok,
    r"^(?:std::option::)?Option::<.*>::ok_or::<": m_option_ok_or,
    r"^(?:std::option::)?Option::<.*>::and_then::<": m_option_and_then2,
})


def m_slice_contains(it, args, callee):
    """`slice.contains(x)`: true for the very same token, otherwise an unconstrained Boolean per element (PartialEq on
    opaque payloads is not interpreted)"""
    v = _vec(it, args[0])
    x = it.deref(args[1], it.cur_env)
    if any(e is x for e in v.items):
        return SV("bool", "true")
    if not v.items:
        return SV("bool", "false")
    bs = [it.sem.fresh("Bool", "eq") for _ in v.items]
    return SV("bool", "(or %s)" % " ".join(bs) if len(bs) > 1 else bs[0])


VEC_MODELS[r"^core::slice::<impl \[.*\]>::contains$"] = m_slice_contains


# ----------------------------------------------------------------------------------------------
# owned iteration with adapters: vec.into_iter().map(f).map(g).unzip() / .collect()

class MapIter:
    def __init__(self, base, closures):
        self.base, self.closures = base, list(closures)


def m_vec_into_iter_owned(it, args, callee):
    v = it.deref(args[0], it.cur_env)
    if not isinstance(v, VecVal):
        raise Unsupported("into_iter on %r" % (v,))
    return IterVal(list(v.items))


def m_iter_map(it, args, callee):
    base, clo = args
    if isinstance(base, MapIter):
        return MapIter(base.base, base.closures + [clo])
    if isinstance(base, IterVal):
        return MapIter(base, [clo])
    raise Unsupported("Iterator::map on %r" % (base,))


def _apply_chain(it, mi):
    """all ways of running the closure chain over the items: [(pc, [results])]"""
    paths = [([], [])]
    items = mi.base.items[mi.base.pos:] if isinstance(mi, MapIter) else mi.items[mi.pos:]
    closures = mi.closures if isinstance(mi, MapIter) else []
    for item in items:
        new_paths = []
        for pc, acc in paths:
            partial = [(pc, item)]
            for clo in closures:
                nxt = []
                for pc1, val in partial:
                    if isinstance(clo, Agg) and clo.ty.startswith("{closure@"):
                        f = it.closure_fn(clo)
                        for (pc2, out, kind, msg) in it.call_fn(f, [clo, val]):
                            if kind == "panic":
                                raise Unsupported("closure in iterator chain can panic: %s" % msg)
                            nxt.append((pc1 + pc2, out))
                    elif isinstance(clo, Opaque) and clo.what.startswith("fnitem:"):
                        f = it.fn_item(clo.what[len("fnitem:"):]) if hasattr(it, "fn_item") else None
                        if f is None:
                            raise Unsupported("function item %s in iterator chain" % clo.what)
                        if callable(f):
                            nxt.append((pc1, f(it, [val], clo.what)))
                            continue
                        for (pc2, out, kind, msg) in it.call_fn(f, [val]):
                            if kind == "panic":
                                raise Unsupported("function in iterator chain can panic: %s" % msg)
                            nxt.append((pc1 + pc2, out))
                    else:
                        raise Unsupported("iterator adapter with %r" % (clo,))
                partial = nxt
            for pc1, val in partial:
                new_paths.append((pc1, acc + [val]))
        paths = new_paths
        if len(paths) > 512:
            raise Unsupported("iterator chain: too many paths")
    return paths


def m_iter_unzip(it, args, callee):
    out = []
    for pc, vals in _apply_chain(it, args[0]):
        a = VecVal([v.fields["0"] for v in vals])
        b = VecVal([v.fields["1"] for v in vals])
        out.append((pc, Agg("tuple", {"0": a, "1": b}), "return", None))
    return out


def m_iter_collect(it, args, callee):
    return [(pc, VecVal(vals), "return", None) for pc, vals in _apply_chain(it, args[0])]


ITER_MODELS = {
    r"^<Vec<.*> as IntoIterator>::into_iter$": m_vec_into_iter_owned,
    r"^<std::vec::IntoIter<.*> as Iterator>::map::<": m_iter_map,
    r"^<std::iter::Map<.*> as Iterator>::map::<": m_iter_map,
    r"^<std::iter::Map<.*> as Iterator>::unzip::<": m_iter_unzip,
    r"^<std::iter::Map<.*> as Iterator>::collect::<": m_iter_collect,
    r"^<std::vec::IntoIter<.*> as Iterator>::collect::<": m_iter_collect,
}


# ----------------------------------------------------------------------------------------------
# closures called through the Fn* traits, and for_each

def m_fn_trait_call(it, args, callee):
    clo, tup = args
    states = it.run_closure_seq(clo, [tup], unpack=True)
    out = []
    for pc, env, acc in states:
        kind, val = acc[0]
        if kind == "panic":
            out.append((pc, None, "panic", val))
        else:
            out.append((pc, val, "return", None, {"env": env}))
    return out


def m_for_each(it, args, callee):
    src, clo = args
    src = it.deref(src, it.cur_env)
    if isinstance(src, IterVal):
        items = src.items[src.pos:]
    elif isinstance(src, VecVal):
        items = src.items
    else:
        raise Unsupported("for_each over %r" % (src,))
    out = []
    for pc, env, acc in it.run_closure_seq(clo, items):
        bad = [v for k, v in acc if k == "panic"]
        if bad:
            out.append((pc, None, "panic", bad[0]))
        else:
            out.append((pc, Opaque("unit"), "return", None, {"env": env}))
    return out


CLOSURE_MODELS = {
    r" as Fn(Mut|Once)?<\(.*\)>>::call(_mut|_once)?$": m_fn_trait_call,
    r"^<std::slice::Iter<'_, .*> as Iterator>::for_each::<": m_for_each,
    r"^<std::vec::IntoIter<.*> as Iterator>::for_each::<": m_for_each,
}
MORE_MODELS.update(CLOSURE_MODELS)


STD_MODELS.update({
    r"^<quantity::Number as From<f64>>::from$": m_f64_into_number,
    r"RangeInclusive::<f64>::into_inner$": lambda it, a, c: Agg("tuple", {"0": a[0].fields["0"], "1": a[0].fields["1"]}),
})


def m_round_ties_even(it, args, callee):
    e = it.sem.define("Real", args[0].expr, "v")
    fl = it.sem.floor(e)
    # nearest integer, ties to even
    frac = "(- %s (to_real %s))" % (e, fl)
    r = "(ite (< %s 0.5) %s (ite (> %s 0.5) (+ %s 1) (ite (= (mod %s 2) 0) %s (+ %s 1))))" % (frac, fl, frac, fl, fl, fl, fl)
    return SV("f64", "(to_real %s)" % it.sem.define("Int", r, "rte"))


STD_MODELS[r"f64::<impl f64>::round_ties_even$"] = m_round_ties_even


VEC_MODELS.update({
    r"^Vec::<.*>::new$": lambda it, a, c: VecVal([]),
    r"^<Vec<.*> as Default>::default$": lambda it, a, c: VecVal([]),
})


# ----------------------------------------------------------------------------------------------
# generic Option methods (receiver may be abstract in lenient mode: `it._call` materialises it first)

def _recv(it, a):
    return a if isinstance(a, (Enum, Opaque, Agg, SV)) else it.deref(a, it.cur_env)


def m_option_unwrap(it, args, callee):
    opt = it.lazy_enum(_recv(it, args[0]), "Option")
    what = "called `Option::%s()` on a `None` value" % ("expect" if "expect" in callee else "unwrap")
    return [(pc, payload, "return", None) if is_some else (pc, None, "panic", what) for pc, is_some, payload in opt_cases(it, opt)]


def m_option_is_none(it, args, callee):
    d = it.lazy_enum(_recv(it, args[0]), "Option").discr.expr
    return SV("bool", ("true" if d == "0" else "false") if re.match(r"^\d+$", d) else "(= %s 0)" % d)


def m_option_as_ref(it, args, callee):
    return _recv(it, args[0])


def m_option_zip(it, args, callee):
    a, b = it.lazy_enum(_recv(it, args[0]), "Option"), it.lazy_enum(_recv(it, args[1]), "Option")
    res = []
    for pc1, s1, p1 in opt_cases(it, a):
        for pc2, s2, p2 in opt_cases(it, b):
            if s1 and s2:
                res.append((pc1 + pc2, it._mk_enum("Option", "Some", [Agg("tuple", {"0": p1, "1": p2})]), "return", None))
            else:
                res.append((pc1 + pc2, it._mk_enum("Option", "None", []), "return", None))
    return res


MORE_MODELS.update({
    r"^(?:std::option::)?Option::<.*>::(unwrap|expect)$": m_option_unwrap,
    r"^(?:std::option::)?Option::<.*>::is_none$": m_option_is_none,
    r"^(?:std::option::)?Option::<.*>::(as_ref|as_deref)$": m_option_as_ref,
    r"^(?:std::option::)?Option::<.*>::zip::<": m_option_zip,
})


def m_box_new_uninit(it, args, callee):
    from mir import BoxCell
    return BoxCell()


def m_box_into_vec(it, args, callee):
    from mir import BoxCell
    b = args[0]
    if not isinstance(b, BoxCell) or b.content is None:
        raise Unsupported("box_assume_init_into_vec on %r" % (b,))
    c = b.content
    return VecVal(list(c.items)) if isinstance(c, VecVal) else VecVal([c.fields[k] for k in sorted(c.fields, key=int)])


VEC_MODELS.update({
    r"^Box::<\[.*\]>::new_uninit$": m_box_new_uninit,
    r"^std::boxed::box_assume_init_into_vec_unsafe::<": m_box_into_vec,
})


def m_iter_rposition(it, args, callee):
    """`iter.rposition(pred)`: index of the LAST element satisfying the predicate"""
    src = it.deref(args[0], it.cur_env) if not isinstance(args[0], (IterVal, VecVal)) else args[0]
    items = src.items[src.pos:] if isinstance(src, IterVal) else src.items
    rev = list(reversed(list(enumerate(items))))
    out = []
    for pc, env, acc in it.run_closure_seq(args[1], [x for _, x in rev]):
        if any(k == "panic" for k, _ in acc):
            out.append((pc, None, "panic", [v for k, v in acc if k == "panic"][0]))
            continue
        misses = []
        for (idx, _), (_, r) in zip(rev, acc):
            b = r.expr if isinstance(r, SV) else it.lazy_scalar(r, "bool").expr
            out.append((pc + misses + [b], it._mk_enum("Option", "Some", [SV("usize", str(idx))]), "return", None, {"env": env}))
            misses = misses + ["(not %s)" % b]
        out.append((pc + misses, it._mk_enum("Option", "None", []), "return", None, {"env": env}))
    return out


def m_once_cell_get_or_init(it, args, callee):
    """`OnceCell::get_or_init(f)`: the initialiser is a pure function of captured state here, so every call evaluates it
    (same value each time: the path conditions it produces are shared)"""
    out = []
    for pc, env, acc in it.run_closure_seq(args[1], [Opaque("unit")], unpack=True):
        kind, val = acc[0]
        if kind == "panic":
            out.append((pc, None, "panic", val))
        else:
            out.append((pc, val, "return", None, {"env": env}))
    return out


CLOSURE_MODELS.update({
    r"^<std::slice::Iter<'_, .*> as Iterator>::rposition::<": m_iter_rposition,
    r"^(std::cell::)?OnceCell::<.*>::get_or_init::<": m_once_cell_get_or_init,
    r"^(std::cell::)?OnceCell::<.*>::new$": m_opaque,
})
MORE_MODELS.update(CLOSURE_MODELS)


def m_option_as_mut(it, args, callee):
    from mir import ProjRef
    opt = it.lazy_enum(it.deref(args[0], it.cur_env), "Option")
    res = []
    for pc, is_some, payload in opt_cases(it, opt):
        if is_some:
            res.append((pc, it._mk_enum("Option", "Some", [ProjRef(args[0], [("v", "Some"), ("f", "0")])]), "return", None))
        else:
            res.append((pc, it._mk_enum("Option", "None", []), "return", None))
    return res


MORE_MODELS[r"^(?:std::option::)?Option::<.*>::as_mut$"] = m_option_as_mut


# ----------------------------------------------------------------------------------------------
# iterator adaptors over sequences of known length (eager: the adaptor is evaluated where it is built)

def _iter_items(it, v):
    v = it.deref(v, it.cur_env) if not isinstance(v, (IterVal, VecVal)) else v
    if isinstance(v, IterVal):
        return list(v.items[v.pos:])
    if isinstance(v, VecVal):
        return list(v.items)
    raise Unsupported("iterator over %r" % (v,))


def m_iter_once(it, args, callee):
    return IterVal([args[0]])


def m_iter_same(it, args, callee):
    return IterVal(_iter_items(it, args[0]))


def m_iter_chain(it, args, callee):
    return IterVal(_iter_items(it, args[0]) + _iter_items(it, args[1]))


def m_iter_filter_map(it, args, callee):
    items = _iter_items(it, args[0])
    out = []
    for pc, env, acc in it.run_closure_seq(args[1], items):
        if any(k == "panic" for k, _ in acc):
            out.append((pc, None, "panic", [v for k, v in acc if k == "panic"][0]))
            continue
        states = [([], [])]
        for _, r in acc:
            nxt = []
            for cpc, kept in states:
                for pc2, is_some, payload in opt_cases(it, it.lazy_enum(r, "Option")):
                    nxt.append((cpc + pc2, kept + ([payload] if is_some else [])))
            states = nxt
        for cpc, kept in states:
            out.append((pc + cpc, IterVal(kept), "return", None, {"env": env}))
    return out


ITER_MODELS.update({
    r"^(std::iter::)?once::<": m_iter_once,
    r"^<std::slice::Iter<'_, .*> as Iterator>::(copied|cloned)(::<.*>)?$": m_iter_same,
    r"^<.* as Iterator>::chain::<": m_iter_chain,
    r"^<.* as Iterator>::filter_map::<": m_iter_filter_map,
    r"^<(std::iter::)?(FilterMap|Chain|Once|Copied|Cloned)<.*> as IntoIterator>::into_iter$": m_iter_same,
    r"^<(std::iter::)?(FilterMap|Chain|Once|Copied|Cloned)<.*> as Iterator>::next$": m_iter_next,
})
MORE_MODELS.update(ITER_MODELS)


def _m_f64_minmax(op):
    def model(it, args, callee):
        a, b = [x if isinstance(x, SV) else it.deref(x, it.cur_env) for x in args]
        return SV("f64", it.sem.define("Real", "(ite (%s %s %s) %s %s)" % (op, a.expr, b.expr, a.expr, b.expr), "mm"))
    return model


STD_MODELS.update({
    r"^core::f64::<impl f64>::min$": _m_f64_minmax("<="),
    r"^core::f64::<impl f64>::max$": _m_f64_minmax(">="),
})


def m_iter_position(it, args, callee):
    """`iter.position(pred)`: index of the FIRST element satisfying the predicate"""
    src = it.deref(args[0], it.cur_env) if not isinstance(args[0], (IterVal, VecVal)) else args[0]
    items = src.items[src.pos:] if isinstance(src, IterVal) else src.items
    out = []
    for pc, env, acc in it.run_closure_seq(args[1], list(items)):
        if any(k == "panic" for k, _ in acc):
            out.append((pc, None, "panic", [v for k, v in acc if k == "panic"][0]))
            continue
        misses = []
        for idx, (_, r) in enumerate(acc):
            b = r.expr if isinstance(r, SV) else it.lazy_scalar(r, "bool").expr
            out.append((pc + misses + [b], it._mk_enum("Option", "Some", [SV("usize", str(idx))]), "return", None, {"env": env}))
            misses = misses + ["(not %s)" % b]
        out.append((pc + misses, it._mk_enum("Option", "None", []), "return", None, {"env": env}))
    return out


def m_slice_split_at(it, args, callee):
    v = it.deref(args[0], it.cur_env) if not isinstance(args[0], VecVal) else args[0]
    mid = args[1]
    if not (isinstance(v, VecVal) and isinstance(mid, SV) and re.match(r"^\d+$", mid.expr) and int(mid.expr) <= len(v.items)):
        raise Unsupported("split_at(%r) of %r" % (mid, v))
    m = int(mid.expr)
    return Agg("tuple", {"0": VecVal(v.items[:m]), "1": VecVal(v.items[m:])})


def m_slice_split_first(it, args, callee):
    v = it.deref(args[0], it.cur_env) if not isinstance(args[0], VecVal) else args[0]
    if not isinstance(v, VecVal):
        raise Unsupported("split_first of %r" % (v,))
    if not v.items:
        return it._mk_enum("Option", "None", [])
    return it._mk_enum("Option", "Some", [Agg("tuple", {"0": v.items[0], "1": VecVal(v.items[1:])})])


CLOSURE_MODELS.update({
    r"^<std::slice::Iter<'_, .*> as Iterator>::position::<": m_iter_position,
})
MORE_MODELS.update(CLOSURE_MODELS)
MORE_MODELS.update({
    r"^core::slice::<impl \[.*\]>::split_at$": m_slice_split_at,
    r"^core::slice::<impl \[.*\]>::split_first$": m_slice_split_first,
})


def m_iter_find(it, args, callee):
    """`iter.find(pred)`: the FIRST element satisfying the predicate"""
    src = it.deref(args[0], it.cur_env) if not isinstance(args[0], (IterVal, VecVal)) else args[0]
    items = src.items[src.pos:] if isinstance(src, IterVal) else src.items
    out = []
    for pc, env, acc in it.run_closure_seq(args[1], list(items)):
        if any(k == "panic" for k, _ in acc):
            out.append((pc, None, "panic", [v for k, v in acc if k == "panic"][0]))
            continue
        misses = []
        for item, (_, r) in zip(items, acc):
            b = r.expr if isinstance(r, SV) else it.lazy_scalar(r, "bool").expr
            out.append((pc + misses + [b], it._mk_enum("Option", "Some", [item]), "return", None, {"env": env}))
            misses = misses + ["(not %s)" % b]
        out.append((pc + misses, it._mk_enum("Option", "None", []), "return", None, {"env": env}))
    return out


CLOSURE_MODELS[r"^<std::slice::Iter<'_, .*> as Iterator>::find::<"] = m_iter_find
MORE_MODELS.update(CLOSURE_MODELS)
