"""Abstract model of the strings `parse_time` works on (Engine M).

A duration string is a sequence of whitespace-separated *words*; each word is `<numtext><unittext>` where numtext is
the maximal leading run of ASCII digits and dots and unittext the rest (either may be empty, not both).  What the
code can observe of a word is modelled symbolically:
  num_ok   Bool    numtext parses as f64
  num      Real    the parsed value (>= 0: digits and dots only)
  unit     String  unittext (SMT string), empty iff the word is purely numeric
Whole-string facts (`is_empty`, whole-string float parse for the fallback, the compact `HhMm` recogniser) are separate
symbols constrained by the check.
"""
import re
from mir import SV, Agg, Enum, Opaque, Unsupported, VecVal, MutRef


class Word:
    def __init__(self, sem, name):
        self.name = name
        self.num_ok = name + "_numok"
        self.num = name + "_num"
        self.unit = name + "_unit"
        sem.decls.append("(declare-const %s Bool)" % self.num_ok)
        sem.decls.append("(declare-const %s Real)" % self.num)
        sem.decls.append("(declare-const %s String)" % self.unit)
        sem.decls.append("(assert (and (>= %s 0.0) (<= %s 1000000000000.0)))" % (self.num, self.num))


class StrVal:
    """a &str the code holds: the whole input, a word, or the number / unit part of a word"""
    def __init__(self, kind, word=None, whole=None):
        self.kind, self.word, self.whole = kind, word, whole   # kind: whole | word | numpart | unitpart


class IterVal:
    def __init__(self, items, pos=0):
        self.items, self.pos = items, pos


class Whole:
    def __init__(self, sem, words, name="s"):
        self.words = words
        self.float_ok = name + "_floatok"     # the whole string parses as f64 (fallback)
        self.float = name + "_float"
        sem.decls.append("(declare-const %s Bool)" % self.float_ok)
        sem.decls.append("(declare-const %s Real)" % self.float)
        sem.decls.append("(assert (and (>= %s (- 1000000000000000.0)) (<= %s 1000000000000000.0)))" % (self.float, self.float))


def mk_models(it, sem):
    def some(v):
        return it._mk_enum("Option", "Some", [v])

    def none():
        return it._mk_enum("Option", "None", [])

    def m_split_ws(it_, args, callee):
        s = args[0]
        if not (isinstance(s, StrVal) and s.kind == "whole"):
            raise Unsupported("split_whitespace on %r" % (s,))
        return IterVal([StrVal("word", word=w) for w in s.whole.words])

    def m_iter_next(it_, args, callee):
        ref = args[0]
        cur = it_.deref(ref, it_.cur_env)
        if not isinstance(cur, IterVal):
            raise Unsupported("Iterator::next on %r" % (cur,))
        if cur.pos >= len(cur.items):
            return none()
        it_.write_ref(ref, IterVal(cur.items, cur.pos + 1), it_.cur_env)
        return some(cur.items[cur.pos])

    def m_find(it_, args, callee):
        # position of the first char that is neither a digit nor '.': None iff the unit part is empty
        w = args[0]
        if not (isinstance(w, StrVal) and w.kind == "word"):
            raise Unsupported("str::find on %r" % (w,))
        tag = SV("isize", "(ite (= %s \"\") 0 1)" % w.word.unit)
        from models import mk_option
        return mk_option(it_, tag, Opaque("mid of " + w.word.name, [w]))

    def m_split_at(it_, args, callee):
        w, mid = args
        if not (isinstance(w, StrVal) and w.kind == "word" and isinstance(mid, Opaque) and mid.args and mid.args[0] is w):
            raise Unsupported("split_at with a position that is not the one `find` returned")
        return Agg("tuple", {"0": StrVal("numpart", word=w.word), "1": StrVal("unitpart", word=w.word)})

    def m_parse_f64(it_, args, callee):
        s = args[0]
        ok = lambda v: it._mk_enum("Result", "Ok", [v])
        err = it._mk_enum("Result", "Err", [Opaque("ParseFloatError")])
        if isinstance(s, StrVal) and s.kind in ("numpart", "word"):
            w = s.word
            cond = w.num_ok if s.kind == "numpart" else "(and %s (= %s \"\"))" % (w.num_ok, w.unit)
            return [([cond], ok(SV("f64", w.num)), "return", None), (["(not %s)" % cond], err, "return", None)]
        if isinstance(s, StrVal) and s.kind == "whole":
            wh = s.whole
            return [([wh.float_ok], ok(SV("f64", wh.float)), "return", None), (["(not %s)" % wh.float_ok], err, "return", None)]
        raise Unsupported("parse::<f64> on %r" % (s,))

    def unit_expr(s):
        if isinstance(s, StrVal) and s.kind == "unitpart":
            return s.word.unit
        if isinstance(s, StrVal) and s.kind == "word":
            # a whole word used as the unit (the "N U" layout): its text is its unit part when it has no number part;
            # otherwise it is some string that is not a documented unit (documented units contain no digit or dot)
            return s.word.unit
        raise Unsupported("string used as a unit: %r" % (s,))

    def m_str_eq(it_, args, callee):
        a, b = args
        ea = a.expr if isinstance(a, SV) else unit_expr(a)
        eb = b.expr if isinstance(b, SV) else unit_expr(b)
        return SV("bool", "(= %s %s)" % (ea, eb))

    def m_fn_call(it_, args, callee):
        clo, tup = args
        clo = it_.deref(clo, it_.cur_env)
        f = it_.closure_fn(clo)
        return it_.call_fn(f, [clo] + [tup.fields[k] for k in sorted(tup.fields, key=int)])

    def m_ok_or(it_, args, callee):
        from models import opt_cases
        opt, e = args
        out = []
        for pc, is_some, payload in opt_cases(it_, opt):
            out.append((pc, it._mk_enum("Result", "Ok", [payload]) if is_some else it._mk_enum("Result", "Err", [e]), "return", None))
        return out

    def m_try_result(it_, args, callee):
        r = args[0]
        out = []
        d = r.discr.expr
        for idx, name in ((0, "Ok"), (1, "Err")):
            if name not in r.variants:
                continue
            if re.match(r"^\d+$", d):
                if int(d) != idx:
                    continue
                pc = []
            else:
                pc = ["(= %s %d)" % (d, idx)]
            if name == "Ok":
                out.append((pc, Enum("ControlFlow", SV("isize", "0"), {"Continue": Agg("Continue", {"0": r.variants["Ok"].fields["0"]})},
                                     ["Continue", "Break"]), "return", None))
            else:
                resid = it._mk_enum("Result", "Err", [r.variants["Err"].fields["0"]])
                out.append((pc, Enum("ControlFlow", SV("isize", "1"), {"Break": Agg("Break", {"0": resid})}, ["Continue", "Break"]), "return", None))
        return out

    def m_from_residual(it_, args, callee):
        r = args[0]
        payload = r.variants["Err"].fields["0"] if isinstance(r, Enum) and "Err" in r.variants else Opaque("error")
        return it._mk_enum("Result", "Err", [Opaque("converted error", [payload])])

    def m_is_err(it_, args, callee):
        r = it_.deref(args[0], it_.cur_env)
        d = r.discr.expr
        if re.match(r"^\d+$", d):
            return SV("bool", "true" if d == "1" else "false")
        return SV("bool", "(= %s 1)" % d)

    def m_result_map(it_, args, callee):
        r, clo = args
        out = []
        d = r.discr.expr
        for idx, name in ((0, "Ok"), (1, "Err")):
            if name not in r.variants:
                continue
            pc = [] if re.match(r"^\d+$", d) else ["(= %s %d)" % (d, idx)]
            if re.match(r"^\d+$", d) and int(d) != idx:
                continue
            if name == "Ok":
                f = it_.closure_fn(clo)
                for (pc2, val, kind, msg) in it_.call_fn(f, [clo, r.variants["Ok"].fields["0"]]):
                    out.append((pc + pc2, it._mk_enum("Result", "Ok", [val]) if kind == "return" else None, kind, msg))
            else:
                out.append((pc, it._mk_enum("Result", "Err", [r.variants["Err"].fields["0"]]), "return", None))
        return out

    def m_is_empty(it_, args, callee):
        s = args[0]
        if isinstance(s, StrVal) and s.kind == "whole":
            return SV("bool", "true" if not s.whole.words else "false")
        raise Unsupported("is_empty on %r" % (s,))

    def m_to_string(it_, args, callee):
        return Opaque("String", args)

    return {
        r"^core::str::<impl str>::split_whitespace$": m_split_ws,
        r"^<SplitWhitespace<'_> as Iterator>::next$": m_iter_next,
        r"^core::str::<impl str>::find::<": m_find,
        r"^core::str::<impl str>::split_at$": m_split_at,
        r"^core::str::<impl str>::parse::<f64>$": m_parse_f64,
        r"^core::str::<impl str>::is_empty$": m_is_empty,
        r"^<str as PartialEq>::eq$": m_str_eq,
        r" as Fn<\(f64, &str\)>>::call$": m_fn_call,
        r"^std::option::Option::<&str>::ok_or::<": m_ok_or,
        r"^<Result<.*> as Try>::branch$": m_try_result,
        r"as FromResidual<Result<Infallible, .*>>>::from_residual$": m_from_residual,
        r"^Result::<.*>::is_err$": m_is_err,
        r"^Result::<f64, ParseFloatError>::map::<": m_result_map,
        r"^<str as ToString>::to_string$": m_to_string,
        r"^<ConvertError as Into<ParseTimeError>>::into$": lambda it_, a, c: Opaque("ParseTimeError", a),
        r"^<ParseTimeError as From<ConvertError>>::from$": lambda it_, a, c: Opaque("ParseTimeError", a),
        r"^<metadata::ParseTimeError as From<ConvertError>>::from$": lambda it_, a, c: Opaque("ParseTimeError", a),
    }
