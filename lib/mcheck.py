"""Engine M glue: MIR dump of the scratch copy, solver sessions, obligation bookkeeping."""
import os, time, re
import mir, smt

SOLVERS = {
    "z3": ["z3", "-in"],
    "z3-new": ["z3-new", "-in"],
    "cvc5": ["cvc5", "--lang", "smt2", "--incremental", "--produce-models", "--tlimit-per=60000"],
}


class MSession:
    def __init__(self, run, scr, primary="z3-new", timeout_ms=60000):
        self.run, self.scr = run, scr
        self.primary = primary
        self.timeout_ms = timeout_ms
        self.dump = None
        self.decls = None
        self.solvers = {}
        self.nq = 0

    def load_mir(self):
        t0 = time.time()
        out = os.path.join(self.scr.dir, "mir.txt")
        dev = os.environ.get("VERIF_DEV_MIR")     # development shortcut only: never set by registered commands
        if dev:
            self.dump = mir.MirDump(open(os.path.join(dev, "mir.txt")).read())
            self.decls = mir.TypeDecls(os.path.join(dev, "repo", "src"))
            return self.dump
        self.dump = mir.dump_mir(self.scr.repo, os.path.join(self.scr.dir, "mir-target"), out)
        self.decls = mir.TypeDecls(os.path.join(self.scr.repo, "src"))
        self.run.log("MIR dump: %d functions in %.0fs" % (sum(len(v) for v in self.dump.fns.values()), time.time() - t0))
        return self.dump

    def solver(self, name, tag, decls):
        """a solver process preloaded with the shared declarations of one encoding"""
        key = (name, tag)
        if key not in self.solvers:
            log = os.path.join(self.run.logdir, "smt-%s-%s.smt2" % (tag, name))
            s = smt.Solver(SOLVERS[name], log_path=log, timeout_ms=self.timeout_ms)
            s.declare(decls)
            self.solvers[key] = s
        return self.solvers[key]

    def close(self):
        for s in self.solvers.values():
            self.run.solver_time_s += s.time_s
            s.close()
        self.solvers = {}

    def obligation(self, tag, decls, name, asserts, expect="unsat", values=(), note="", also=(), local_decls=()):
        """Discharge one query.  expect='unsat': the negated property must be unsatisfiable.
        expect='sat': vacuity / reachability twin.  Returns (verdict, model dict)."""
        s = self.solver(self.primary, tag, decls)
        tq = time.time()
        verdict, model_lines = s.check(asserts, values=values if expect == "unsat" else (), local_decls=local_decls)
        tq = time.time() - tq
        model = smt.parse_values(model_lines) if model_lines else {}
        self.nq += 1
        rec = dict(solver=self.primary, query=name, expect=expect, verdict=verdict, note=note, time_s=round(tq, 3))
        if s.errors:
            rec["solver_errors"] = s.errors[-3:]
            verdict = "error"
        for other in also:
            so = self.solver(other, tag, decls)
            v2, _ = so.check(asserts, local_decls=local_decls)
            rec["verdict_" + other] = v2
            if v2 in ("sat", "unsat") and verdict in ("sat", "unsat") and v2 != verdict:
                rec["solver_disagreement"] = True
                self.run.inconclusive.append("%s: %s says %s but %s says %s" % (name, self.primary, verdict, other, v2))
        if verdict == expect:
            self.run.add_obligation(name, "mir-smt", "holds" if expect == "unsat" else "twin-ok", **rec)
            self.run.vccs += 1
        elif expect == "unsat" and verdict == "sat":
            rec["model"] = {k: (str(v)) for k, v in model.items()}
            self.run.add_obligation(name, "mir-smt", "candidate", **rec)
        elif expect == "sat" and verdict == "unsat":
            self.run.add_obligation(name, "mir-smt", "inconclusive", **rec)
            self.run.inconclusive.append("%s: vacuity twin is unsat - the obligation has become vacuous" % name)
        else:
            self.run.add_obligation(name, "mir-smt", "inconclusive", **rec)
            self.run.inconclusive.append("%s: solver answered %s" % (name, verdict))
        return verdict, model


def solve_file(solver, decls, asserts, values, timeout_s, path):
    """one query in a fresh solver process (z3's non-incremental strategies are far stronger on
    the mixed int/real queries than its incremental core)"""
    import subprocess
    with open(path, "w") as f:
        f.write("(set-logic ALL)\n")
        f.write("\n".join(decls) + "\n")
        for a in asserts:
            f.write("(assert %s)\n" % a)
        f.write("(check-sat)\n")
        if values:
            f.write("(get-value (%s))\n" % " ".join(values))
    cmd = {"z3": ["z3", "-T:%d" % timeout_s, path], "z3-new": ["z3-new", "-T:%d" % timeout_s, path],
           "cvc5": ["cvc5", "--lang", "smt2", "--produce-models", "--tlimit=%d" % (timeout_s * 1000), path]}[solver]
    t0 = time.time()
    try:
        p = subprocess.run(cmd, stdout=subprocess.PIPE, stderr=subprocess.STDOUT, text=True, timeout=timeout_s + 10)
        out = p.stdout.splitlines()
    except subprocess.TimeoutExpired:
        out = ["timeout"]
    dt = time.time() - t0
    verdict = "error"
    for l in out[:3]:
        if l.strip() in ("sat", "unsat", "unknown", "timeout"):
            verdict = l.strip()
            break
    errs = [l for l in out if "(error" in l]
    # get-value after unsat/unknown legitimately errors; only errors before the verdict matter
    if errs and verdict in ("sat",) and not values:
        verdict = "error"
    if errs and verdict in ("unsat", "unknown", "timeout"):
        errs = [e for e in errs if "model is not available" not in e and "get-value" not in e and "Cannot get" not in e
                and "cannot get" not in e]
        if errs:
            verdict = "error"
    model = smt.parse_values(out[1:]) if verdict == "sat" and values else {}
    return verdict, model, dt, errs


class Batch:
    """collect obligations, discharge them in parallel fresh solver processes, book-keep in order"""

    def __init__(self, ms, tag, decls, timeout_s=120, jobs=12, deltas=()):
        self.ms, self.tag, self.decls = ms, tag, list(decls)
        # rounding-error variables of the encoding: when a query is not decided in time it is retried with all of
        # them fixed to 0 (a legal choice), which usually lets the solver exhibit a model quickly
        self.deltas = list(deltas)
        self.jobs_n, self.timeout_s = jobs, timeout_s
        self.items = []

    def add(self, name, asserts, expect="unsat", values=(), on_sat=None, also=(), strong=None):
        """strong: optional variant of the violated inequality with a wide margin - used only to pick a
        counterexample that survives float rounding when it is replayed (never to decide)."""
        self.items.append(dict(name=name, asserts=list(asserts), expect=expect, values=list(values), on_sat=on_sat,
                               also=also, strong=list(strong) if strong else None))

    def run(self):
        from concurrent.futures import ThreadPoolExecutor
        run = self.ms.run
        qdir = os.path.join(run.logdir, "queries-" + self.tag)
        os.makedirs(qdir, exist_ok=True)

        def work(i_it):
            i, it = i_it
            res = {}
            for solver in (self.ms.primary,) + tuple(it["also"]):
                path = os.path.join(qdir, "q%03d-%s.smt2" % (i, solver))
                res[solver] = solve_file(solver, self.decls, it["asserts"], it["values"] if it["expect"] == "unsat" else [],
                                         15 if it["expect"] == "info" else self.timeout_s, path)
                if solver == self.ms.primary and res[solver][0] in ("timeout", "unknown") and self.deltas:
                    zero = ["(= %s 0.0)" % d for d in self.deltas]
                    r2 = solve_file(solver, self.decls, it["asserts"] + zero, it["values"] if it["expect"] == "unsat" else [], min(60, self.timeout_s),
                                    path.replace(".smt2", "-exact.smt2"))
                    if r2[0] == "sat":
                        res[solver] = (r2[0], r2[1], res[solver][2] + r2[2], r2[3])
            return res

        with ThreadPoolExecutor(max_workers=self.jobs_n) as ex:
            results = list(ex.map(work, enumerate(self.items)))
        for it, res in zip(self.items, results):
            verdict, model, dt, errs = res[self.ms.primary]
            run.solver_time_s += dt
            rec = dict(solver=self.ms.primary, query=it["name"], expect=it["expect"], verdict=verdict, time_s=round(dt, 3))
            if errs:
                rec["solver_errors"] = errs[:3]
            for other in it["also"]:
                v2 = res[other][0]
                rec["verdict_" + other] = v2
                run.solver_time_s += res[other][2]
                if v2 in ("sat", "unsat") and verdict in ("sat", "unsat") and v2 != verdict:
                    run.inconclusive.append("%s: %s says %s but %s says %s" % (it["name"], self.ms.primary, verdict, other, v2))
                if verdict not in ("sat", "unsat") and v2 in ("sat", "unsat"):
                    verdict, model = v2, res[other][1]
                    rec["decided_by"] = other
            expect = it["expect"]
            it["verdict"] = verdict
            if expect == "info":
                run.add_obligation(it["name"], "mir-smt", "twin-ok" if verdict == "sat" else "info", **rec)
            elif verdict == expect:
                run.add_obligation(it["name"], "mir-smt", "holds" if expect == "unsat" else "twin-ok", **rec)
                run.vccs += 1
            elif expect == "unsat" and verdict == "sat":
                rec["model"] = {k: str(v) for k, v in model.items()}
                ob = run.add_obligation(it["name"], "mir-smt", "candidate", **rec)
                if it["on_sat"]:
                    it["on_sat"](model, ob, it)
                else:
                    run.inconclusive.append("%s: solver found a candidate model and no replay is defined" % it["name"])
            elif expect == "sat" and verdict == "unsat":
                run.add_obligation(it["name"], "mir-smt", "inconclusive", **rec)
                run.inconclusive.append("%s: vacuity twin is unsat - the obligation has become vacuous" % it["name"])
            else:
                ob = run.add_obligation(it["name"], "mir-smt", "inconclusive", **rec)
                n_before = len(run.violations)
                if expect == "unsat" and it["on_sat"]:
                    # undecided: let the replay look for a concrete failing input anyway (it reports only what
                    # reproduces on the real code); without one the obligation stays inconclusive
                    k = len(run.inconclusive)
                    it["on_sat"]({}, ob, it)
                    del run.inconclusive[k:]
                if len(run.violations) == n_before:
                    run.inconclusive.append("%s: solver answered %s" % (it["name"], verdict))
        done = self.items
        self.items = []
        return done


def refine_exact(ms, sem, decls, asserts, model, input_names, pin=(), timeout_s=60, path=None):
    """second refinement strategy: restore the exact definition of every abstracted product, pin the given (integer)
    inputs to the abstract model's values and let the solver find the real-valued inputs (a small nonlinear problem)"""
    extra = []
    for (pv, op, a, b) in sem.abstractions:
        extra.append("(= %s (%s %s %s))" % (pv, "*" if op == "Mul" else "/", a, b))
    for name in pin:
        if name in model and model[name] is not None:
            extra.append("(= %s %s)" % (name, smt.ilit(int(model[name])) if float(model[name]).is_integer() else smt.rat(model[name])))
    v, m, dt, errs = solve_file(ms.primary, decls, list(asserts) + extra, list(input_names), timeout_s,
                                path or os.path.join(ms.run.logdir, "refine-exact.smt2"))
    return m if v == "sat" else None


def refine(ms, sem, decls, asserts, model, input_names, timeout_s=120, path=None):
    """A model found under product abstraction may be spurious.  Fix the first operand of every
    abstracted product to its model value and restore the exact definition (linear again), then ask
    for a model of the inputs.  Returns a model dict or None."""
    extra = []
    for (pv, op, a, b) in sem.abstractions:
        if a not in model or model[a] is None:
            return None
        val = smt.rat(model[a])
        extra.append("(= %s %s)" % (a, val))
        if op == "Mul":
            extra.append("(= %s (* %s %s))" % (pv, val, b))
        else:
            if b not in model or model[b] in (None, 0):
                return None
            extra.append("(= %s %s)" % (b, smt.rat(model[b])))
            extra.append("(= %s %s)" % (pv, smt.rat(model[a] / model[b])))
    v, m, dt, errs = solve_file(ms.primary, decls, list(asserts) + extra, list(input_names), timeout_s,
                                path or os.path.join(ms.run.logdir, "refine.smt2"))
    return m if v == "sat" else None


def pc_assert(pc):
    return ["%s" % c for c in pc]


def to_f64(fr):
    """nearest double of an exact rational model value"""
    from fractions import Fraction
    if fr is None:
        return None
    if isinstance(fr, bool):
        return fr
    return float(Fraction(fr))
