"""Build and call the native companion binary against the scratch copy (real code, no solver)."""
import os, subprocess, json, shutil

VERIF = os.path.dirname(os.path.dirname(os.path.abspath(__file__)))


class Native:
    def __init__(self, scr, release=False):
        self.dir = os.path.join(scr.dir, "native")
        shutil.copytree(os.path.join(VERIF, "native"), self.dir, ignore=shutil.ignore_patterns("target"))
        ct = open(os.path.join(self.dir, "Cargo.toml")).read().replace("COOKLANG_PATH", scr.repo)
        open(os.path.join(self.dir, "Cargo.toml"), "w").write(ct)
        lock = os.path.join(scr.repo, "Cargo.lock")
        if os.path.isfile(lock):
            shutil.copy(lock, os.path.join(self.dir, "Cargo.lock"))
        self.bins = {}
        self.scr = scr

    def build(self, release=False, log=None):
        env = dict(os.environ)
        env["CARGO_NET_OFFLINE"] = "true"
        env["RUSTFLAGS"] = "--cfg cooklang_verif"
        cmd = ["cargo", "build", "--offline", "--target-dir", os.path.join(self.scr.dir, "native-target")]
        if release:
            cmd.append("--release")
        p = subprocess.run(cmd, cwd=self.dir, env=env, stdout=subprocess.PIPE, stderr=subprocess.STDOUT, text=True)
        if log:
            open(log, "w").write(p.stdout)
        if p.returncode != 0:
            raise RuntimeError("native build failed:\n" + p.stdout[-3000:])
        self.bins["release" if release else "debug"] = os.path.join(
            self.scr.dir, "native-target", "release" if release else "debug", "verif-native")

    def build_bindings(self, log=None):
        """second companion, linked against the scratch copy's `cooklang-bindings` crate"""
        missing = self.scr.inject_bindings()
        if missing:
            raise RuntimeError("bindings crate not found in the working tree: %s" % missing)
        self.bdir = os.path.join(self.scr.dir, "native-bindings")
        if not os.path.isdir(self.bdir):
            shutil.copytree(os.path.join(VERIF, "native-bindings"), self.bdir, ignore=shutil.ignore_patterns("target"))
            ct = open(os.path.join(self.bdir, "Cargo.toml")).read().replace("COOKLANG_PATH", self.scr.repo)
            open(os.path.join(self.bdir, "Cargo.toml"), "w").write(ct)
            lock = os.path.join(self.scr.repo, "Cargo.lock")
            if os.path.isfile(lock):
                shutil.copy(lock, os.path.join(self.bdir, "Cargo.lock"))
        env = dict(os.environ)
        env["CARGO_NET_OFFLINE"] = "true"
        env["RUSTFLAGS"] = "--cfg cooklang_verif"
        p = subprocess.run(["cargo", "build", "--offline", "--target-dir", os.path.join(self.scr.dir, "native-target")],
                           cwd=self.bdir, env=env, stdout=subprocess.PIPE, stderr=subprocess.STDOUT, text=True)
        if log:
            open(log, "w").write(p.stdout)
        if p.returncode != 0:
            raise RuntimeError("native (bindings) build failed:\n" + p.stdout[-3000:])
        self.bbin = os.path.join(self.scr.dir, "native-target", "debug", "verif-native-bindings")

    def call_bindings(self, *args):
        p = subprocess.run([self.bbin] + [str(a) for a in args], stdout=subprocess.PIPE, stderr=subprocess.PIPE, text=True)
        if p.returncode != 0:
            return {"error": p.stderr[-500:], "returncode": p.returncode}
        return json.loads(p.stdout)

    def call(self, *args, profile="debug"):
        p = subprocess.run([self.bins[profile]] + [str(a) for a in args], stdout=subprocess.PIPE, stderr=subprocess.PIPE, text=True)
        if p.returncode != 0:
            return {"error": p.stderr[-500:], "returncode": p.returncode}
        return json.loads(p.stdout)
