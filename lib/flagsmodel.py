"""Models of the `bitflags` API for the crate's flag types (Modifiers: u16, Extensions: u32).

The macro-generated code is printed several times in a MIR dump under names that cannot be told apart reliably, so the
library is modelled instead (environment = stubs with the documented contract of bitflags 2.x): a flags value is
`Ty(InternalBitFlags(bits))`; operations are the documented bit operations, `!x` and `from_bits_truncate` stay within the
union of all declared flags, whose values are READ FROM THE DUMP (the associated constants of the current source)."""
import re
from mir import SV, Agg, Opaque, Unsupported, MutRef, ElemRef, MapElemRef, LocalCell, ProjRef, fork_env

SORTS = {"Modifiers": "u16", "Extensions": "u32"}


def eval_ground(e):
    """value of a ground integer SMT term built from + - * div mod and literals; None if it is not ground"""
    toks = re.findall(r"\(|\)|[^\s()]+", e)
    pos = [0]

    def parse():
        t = toks[pos[0]]
        pos[0] += 1
        if t == "(":
            op = toks[pos[0]]
            pos[0] += 1
            args = []
            while toks[pos[0]] != ")":
                a = parse()
                if a is None:
                    return None
                args.append(a)
            pos[0] += 1
            if op == "+":
                return sum(args)
            if op == "*":
                r = 1
                for a in args:
                    r *= a
                return r
            if op == "-":
                return -args[0] if len(args) == 1 else args[0] - sum(args[1:])
            if op == "mod" and args[1] != 0:
                return args[0] % args[1]
            if op == "div" and args[1] != 0:
                return args[0] // args[1]
            return None
        return int(t) if re.match(r"^-?\d+$", t) else None
    try:
        return parse()
    except (IndexError, ValueError):
        return None


class Flags:
    def __init__(self, it):
        self.it = it
        self._all = {}

    def all_bits(self, ty):
        """OR of every associated constant of type `ty` found in the dump"""
        if ty in self._all:
            return self._all[ty]
        it = self.it
        total = 0
        n = 0
        for name, fl in it.dump.fns.items():
            for f in fl:
                if f.sig.startswith("const ") and it.type_head(f.ret or "") == ty and re.search(r"::[A-Z][A-Z0-9_]*$", name):
                    outs = []
                    it._exec(f, "bb0", {}, [], outs, [], 1)
                    rets = [o for o in outs if o.kind == "return"]
                    if len(rets) != 1:
                        raise Unsupported("flag constant %s does not evaluate" % name)
                    e = self.bits(rets[0].value, ty).expr
                    v = eval_ground(e)
                    if v is None:
                        raise Unsupported("flag constant %s = %s is not a literal" % (name, e))
                    total |= v
                    n += 1
        if n == 0:
            raise Unsupported("no flag constants of %s in the dump" % ty)
        self._all[ty] = total
        return total

    def val(self, x):
        it = self.it
        return it.deref(x, it.cur_env) if isinstance(x, (MutRef, ElemRef, MapElemRef, LocalCell, ProjRef)) else x

    def bits(self, v, ty):
        v = self.val(v)
        sort = SORTS[ty]
        if isinstance(v, SV):
            return v
        if isinstance(v, Agg) and "0" in v.fields:
            inner = v.fields["0"]
            if isinstance(inner, Agg) and "0" in inner.fields:
                inner = inner.fields["0"]
            if isinstance(inner, SV):
                return inner
            if isinstance(inner, Opaque) and getattr(it := self.it, "lenient", False):
                return it.lazy_scalar(inner, sort)
        if isinstance(v, Opaque) and getattr(self.it, "lenient", False):
            return self.it.lazy_scalar(v, sort)
        raise Unsupported("bits of %r" % (v,))

    def mk(self, ty, expr):
        g = eval_ground(expr) if "(" in expr else None
        if g is not None:
            expr = str(g)
        return Agg(ty, {"0": Agg("InternalBitFlags", {"0": SV(SORTS[ty], expr)})})

    def op(self, ty, o, a, b):
        return self.it.sem.int_bitop(o, a, b, SORTS[ty])

    def complement(self, ty, a):
        allb = self.all_bits(ty)
        # all & !a  ==  all - (all & a)
        return "(- %d %s)" % (allb, self.op(ty, "BitAnd", a, str(allb)))


def mk_flag_models(it):
    F = Flags(it)
    it.flags = F
    out = {}
    for ty in SORTS:
        T = r"(?:[\w:]*::)?%s" % ty
        impl = r"^(?:[\w:]*::)?_::<impl %s>::" % T

        def two(fn, ty=ty):
            return lambda it_, a, c: fn(F.bits(a[0], ty).expr, F.bits(a[1], ty).expr)

        def binflag(o, ty=ty):
            return lambda it_, a, c: F.mk(ty, F.op(ty, o, F.bits(a[0], ty).expr, F.bits(a[1], ty).expr))

        def assign(fn, ty=ty):
            def m(it_, a, c):
                cur = F.bits(a[0], ty).expr
                other = F.bits(a[1], ty).expr if len(a) > 1 else None
                env2 = fork_env(it_.cur_env)
                it_.write_ref(a[0], F.mk(ty, fn(cur, other)), env2)
                return [([], Opaque("unit"), "return", None, {"env": env2})]
            return m
        band = lambda x, y, ty=ty: F.op(ty, "BitAnd", x, y)
        bor = lambda x, y, ty=ty: F.op(ty, "BitOr", x, y)
        bxor = lambda x, y, ty=ty: F.op(ty, "BitXor", x, y)
        diff = lambda x, y, ty=ty: "(- %s %s)" % (x, F.op(ty, "BitAnd", x, y))
        out.update({
            impl + r"contains$": two(lambda x, y, ty=ty: SV("bool", "(= %s %s)" % (band(x, y), y))),
            impl + r"intersects$": two(lambda x, y, ty=ty: SV("bool", "(not (= %s 0))" % band(x, y))),
            impl + r"is_empty$": lambda it_, a, c, ty=ty: SV("bool", "(= %s 0)" % F.bits(a[0], ty).expr),
            impl + r"is_all$": lambda it_, a, c, ty=ty: SV("bool", "(= %s %d)" % (band(F.bits(a[0], ty).expr, str(F.all_bits(ty))), F.all_bits(ty))),
            impl + r"bits$": lambda it_, a, c, ty=ty: F.bits(a[0], ty),
            impl + r"from_bits_retain$": lambda it_, a, c, ty=ty: F.mk(ty, F.bits(a[0], ty).expr),
            impl + r"from_bits_truncate$": lambda it_, a, c, ty=ty: F.mk(ty, band(F.bits(a[0], ty).expr, str(F.all_bits(ty)))),
            impl + r"empty$": lambda it_, a, c, ty=ty: F.mk(ty, "0"),
            impl + r"all$": lambda it_, a, c, ty=ty: F.mk(ty, str(F.all_bits(ty))),
            impl + r"union$": binflag("BitOr"),
            impl + r"intersection$": binflag("BitAnd"),
            impl + r"symmetric_difference$": binflag("BitXor"),
            impl + r"difference$": two(lambda x, y, ty=ty: F.mk(ty, diff(x, y))),
            impl + r"complement$": lambda it_, a, c, ty=ty: F.mk(ty, F.complement(ty, F.bits(a[0], ty).expr)),
            impl + r"insert$": assign(lambda x, y: bor(x, y)),
            impl + r"remove$": assign(lambda x, y: diff(x, y)),
            impl + r"toggle$": assign(lambda x, y: bxor(x, y)),
            r"^<%s as BitOr>::bitor$" % T: binflag("BitOr"),
            r"^<%s as BitAnd>::bitand$" % T: binflag("BitAnd"),
            r"^<%s as BitXor>::bitxor$" % T: binflag("BitXor"),
            r"^<%s as Sub>::sub$" % T: two(lambda x, y, ty=ty: F.mk(ty, diff(x, y))),
            r"^<%s as Not>::not$" % T: lambda it_, a, c, ty=ty: F.mk(ty, F.complement(ty, F.bits(a[0], ty).expr)),
            r"^<%s as BitOrAssign>::bitor_assign$" % T: assign(lambda x, y: bor(x, y)),
            r"^<%s as BitAndAssign>::bitand_assign$" % T: assign(lambda x, y: band(x, y)),
            r"^<%s as BitXorAssign>::bitxor_assign$" % T: assign(lambda x, y: bxor(x, y)),
            r"^<%s as SubAssign>::sub_assign$" % T: assign(lambda x, y: diff(x, y)),
            r"^<%s as PartialEq>::eq$" % T: two(lambda x, y: SV("bool", "(= %s %s)" % (x, y))),
            r"^<%s as PartialEq>::ne$" % T: two(lambda x, y: SV("bool", "(not (= %s %s))" % (x, y))),
            r"^<%s as Clone>::clone$" % T: lambda it_, a, c: F.val(a[0]),
        })
    return out
