"""Run a property's Kani harnesses, confirm counterexamples natively, record obligations."""
import os, json, time
import kani


def module_of(full_name):
    return full_name.rsplit("::", 1)[0]


def run_group(run, scr, entries, jobs=12, package="cooklang"):
    """entries: list of registry dicts (name, kernel, bound, obligation, budget_s, twin?)"""
    if not entries:
        return
    tdir = os.path.join(scr.dir, "kani-target-" + package)
    names = [e["name"] for e in entries]
    cap = max(e.get("budget_s", 300) for e in entries)
    log = os.path.join(run.logdir, "kani-%s-%s.log" % (package, run.tier))
    run.log("kani: %d harnesses, per-harness cap %ds, -j %d" % (len(names), cap, jobs))
    res, wall, build_failed = kani.run(scr.repo, names, tdir, log, jobs=jobs, timeout_s=cap, package=package)
    run.log("kani finished in %.0fs" % wall)
    if build_failed:
        run.inconclusive.append("kani build failed (see %s)" % log)
    by_name = {e["name"]: e for e in entries}
    failed = []
    for n in names:
        e, r = by_name[n], res[n]
        run.solver_time_s += r.get("time_s") or 0
        short = n.split("::")[-1]
        if e.get("kernel") and e["kernel"] not in run.functions:
            run.functions.append(e["kernel"])
        for st in e.get("stubs", []):
            if st not in run.stubs:
                run.stubs.append(st)
        run.bounds.append("%s: %s" % (short, e.get("bound", "")))
        is_twin = e.get("twin", False)
        ob = dict(harness=n, bound=e.get("bound", ""), obligation=e.get("obligation", ""),
                  checks=r.get("checks", 0), covers=r.get("covers"), time_s=r.get("time_s"))
        if r["status"] == "success":
            cs, ct = r["covers"]
            if is_twin:
                run.add_obligation(short, "kani", "inconclusive", **ob)
                run.inconclusive.append("%s: vacuity twin passed - the harness no longer reaches its assertions" % short)
            elif cs < ct:
                run.add_obligation(short, "kani", "inconclusive", **ob)
                run.inconclusive.append("%s: only %d of %d cover properties satisfied (vacuous?)" % (short, cs, ct))
            else:
                run.add_obligation(short, "kani", "holds", **ob)
                run.vccs += r.get("checks", 0)
        elif r["status"] == "failed":
            descs = [c["desc"] for c in r["failed_checks"]]
            if descs and all(d.startswith("unwinding assertion") for d in descs):
                run.add_obligation(short, "kani", "inconclusive", **ob)
                run.inconclusive.append("%s: unwinding bound too small for the current code (%s) - bounded claim cannot be made" % (short, descs[0]))
            elif is_twin and descs and all(d == "assertion failed: false" for d in descs):
                run.add_obligation(short, "kani", "twin-ok", **ob)
                run.vccs += 1
            else:
                ob["failed_checks"] = r["failed_checks"]
                failed.append((e, r, ob))
        else:
            run.add_obligation(short, "kani", "inconclusive", reason=r.get("reason"), **ob)
            run.inconclusive.append("%s: %s" % (short, r.get("reason")))
    # counterexamples: concrete playback + native replay of the same harness with Kani's values
    for e, r, ob in failed:
        n = e["name"]
        short = n.split("::")[-1]
        if e.get("twin"):
            # a twin that fails on something else than its assert(false): its sibling reports it
            run.add_obligation(short, "kani", "twin-ok", **ob)
            continue
        run.log("counterexample for %s: %s - extracting concrete values" % (short, [c["desc"] for c in r["failed_checks"]]))
        plog = os.path.join(run.logdir, "playback-%s.log" % short)
        tests = kani.playback_print(scr.repo, n, tdir, plog, timeout_s=int(max(600, 3 * (r.get("time_s") or 200))), package=package)
        tests = [t for t in tests if t["concrete_vals"] is not None and not t["check"].startswith("cover condition")]
        confirmed = []
        if tests:
            pbfile = os.path.join(scr.dir, "playback", module_of(n).replace("::", "__") + ".rs")
            nlog = os.path.join(run.logdir, "native-%s.log" % short)
            outcome = kani.playback_native(scr.repo, pbfile, tests, nlog, package=package)
            run.traces_validated += len(tests)
            for (tname, st), t in zip(outcome.items(), tests):
                if st == "failed":
                    confirmed.append(t)
            open(pbfile, "w").close()
        if confirmed:
            kernel = e.get("kernel", "?")
            for t in confirmed:
                key = "kernel=%s check=%s" % (kernel, t["check"].replace(" ", "_"))
                if any(v["key"] == key for v in run.violations):
                    continue
                decoded = e.get("decode")
                run.violation(key, "%s fails `%s` on concrete values %s (harness %s, reproduced natively)" % (
                    kernel, t["check"], t["concrete_vals"], short),
                    dict(engine="kani", harness=n, package=package, concrete_vals=t["concrete_vals"], check=t["check"],
                         bound=e.get("bound", ""), obligation=e.get("obligation", "")))
            ob["replayed"] = len(confirmed)
            run.add_obligation(short, "kani", "violated", **ob)
            run.vccs += r.get("checks", 0)
        else:
            run.add_obligation(short, "kani", "inconclusive", **ob)
            run.inconclusive.append("%s: CBMC counterexample did not reproduce natively (or no concrete values): %s" % (
                short, [c["desc"] for c in r["failed_checks"]]))


def replay(run, scr, path, package="cooklang"):
    """Replay a stored Kani counterexample against the current tree. Returns True if it still fails."""
    obj = json.load(open(path))
    n = obj["harness"]
    pbfile = os.path.join(scr.dir, "playback", module_of(n).replace("::", "__") + ".rs")
    nlog = os.path.join(run.logdir, "replay-native.log")
    out = kani.playback_native(scr.repo, pbfile, [dict(harness=n, concrete_vals=obj["concrete_vals"])], nlog,
                               package=obj.get("package", package))
    return list(out.values())[0]
