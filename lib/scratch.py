"""Scratch copy of /repo's working tree with the verification modules injected.

Nothing is ever written under /repo.  The copy is regenerated on every run so the
encoding always reflects the current source.
"""
import os, shutil, subprocess, sys, tempfile, atexit

REPO = os.environ.get("VERIF_REPO", "/repo")
VERIF = os.path.dirname(os.path.dirname(os.path.abspath(__file__)))
SCRATCH_ROOT = os.environ.get("VERIF_SCRATCH", "/var/tmp/cooklang-verif")

# repo file -> harness file (under /verif/harness) included as a child module
KANI_INJECT = {
    "src/metadata.rs": "metadata.rs",
    "src/quantity.rs": "quantity.rs",
    "src/scale.rs": "scale.rs",
    "src/convert/mod.rs": "convert.rs",
    "src/convert/units_file.rs": "units_file.rs",
    "src/analysis/event_consumer.rs": "event_consumer.rs",
    "src/lib.rs": "lib.rs",
    "src/error.rs": "error.rs",
    "src/parser/block_parser.rs": "block_parser.rs",
    "src/text.rs": "text.rs",
    "src/parser/model.rs": "parser_model.rs",
}

NATIVE_INJECT = {
    "src/quantity.rs": "native_quantity.rs",
    "src/metadata.rs": "native_metadata.rs",
    "src/convert/mod.rs": "native_convert.rs",
    "src/scale.rs": "native_scale.rs",
}


def modpath(rel):
    """src/convert/mod.rs -> convert ; src/analysis/event_consumer.rs -> analysis::event_consumer ; src/lib.rs -> ''"""
    p = rel[len("src/"):-len(".rs")]
    parts = [x for x in p.split("/") if x not in ("mod", "lib")]
    return "::".join(parts)


def harness_module(rel):
    return (modpath(rel) + "::verif_kani").lstrip(":")


class Scratch:
    def __init__(self, keep=False):
        os.makedirs(SCRATCH_ROOT, exist_ok=True)
        self.dir = tempfile.mkdtemp(prefix="run-", dir=SCRATCH_ROOT)
        self.repo = os.path.join(self.dir, "repo")
        self.keep = keep or bool(os.environ.get("VERIF_KEEP"))
        atexit.register(self.cleanup)

    def cleanup(self):
        if not self.keep and os.path.isdir(self.dir):
            shutil.rmtree(self.dir, ignore_errors=True)

    def copy_repo(self):
        subprocess.run(
            ["rsync", "-a", "--delete", "--exclude", "/target", "--exclude", "/.git",
             "--exclude", "/playground/target", "--exclude", "/playground/node_modules", "--exclude", "/fuzz/target",
             REPO + "/", self.repo + "/"], check=True)
        return self.repo

    def inject_bindings(self):
        """scratch copy only: make the bindings crate linkable from the companion binary (its crate-type is cdylib/staticlib)
        and give the companion a constructor for `Amount`, whose fields are crate-private"""
        hdir = os.path.join(VERIF, "harness")
        ct = os.path.join(self.repo, "bindings", "Cargo.toml")
        model = os.path.join(self.repo, "bindings", "src", "model.rs")
        if not (os.path.isfile(ct) and os.path.isfile(model)):
            return ["bindings/Cargo.toml", "bindings/src/model.rs"]
        txt = open(ct).read()
        if '"lib"' not in txt:
            txt = txt.replace('crate-type = ["cdylib", "staticlib"]', 'crate-type = ["cdylib", "staticlib", "lib"]')
            open(ct, "w").write(txt)
        if "verif_hooks" not in open(model).read():
            with open(model, "a") as f:
                f.write("\n#[cfg(cooklang_verif)]\n#[allow(unused, clippy::all)]\npub mod verif_hooks { include!(\"%s\"); }\n"
                        % os.path.join(hdir, "native_bindings_model.rs"))
        return []

    def inject(self):
        """Append cfg-guarded child modules to the scratch copy (never to /repo)."""
        missing = []
        hdir = os.path.join(VERIF, "harness")
        self.gen = os.path.join(self.dir, "gen")
        os.makedirs(self.gen, exist_ok=True)
        # placeholder so that harness modules compile even when a check does not need the table
        with open(os.path.join(self.gen, "fraction_table.rs"), "w") as f:
            f.write("vec![]")
        files = set(KANI_INJECT) | set(NATIVE_INJECT)
        for rel in sorted(files):
            path = os.path.join(self.repo, rel)
            if not os.path.isfile(path):
                missing.append(rel)
                continue
            add = "\n"
            if rel in KANI_INJECT and os.path.isfile(os.path.join(hdir, KANI_INJECT[rel])):
                pb = os.path.join(self.dir, "playback", (modpath(rel) + "::verif_kani").lstrip(":").replace("::", "__") + ".rs")
                os.makedirs(os.path.dirname(pb), exist_ok=True)
                open(pb, "a").close()
                add += ("#[cfg(kani)]\n#[allow(unused, clippy::all)]\nmod verif_kani { include!(\"%s\"); include!(\"%s\"); }\n"
                        % (os.path.join(hdir, KANI_INJECT[rel]), pb))
            if rel in NATIVE_INJECT and os.path.isfile(os.path.join(hdir, NATIVE_INJECT[rel])):
                add += ("#[cfg(cooklang_verif)]\n#[allow(unused, clippy::all)]\npub mod verif_hooks { include!(\"%s\"); }\n"
                        % os.path.join(hdir, NATIVE_INJECT[rel]))
            with open(path, "a") as f:
                f.write(add)
        return missing
