#!/bin/sh
# Offline sanity check of the tool chain the checks need; nothing persistent is built
# (every check compiles a scratch copy of /repo's working tree under /var/tmp/cooklang-verif).
set -e
cd "$(dirname "$0")"
export CARGO_NET_OFFLINE=true
cargo kani --version >/dev/null
z3 --version >/dev/null
z3-new --version >/dev/null
cargo +nightly --version >/dev/null
cvc5 --version >/dev/null 2>&1 || true
python3 -c "import json,subprocess,re" 
mkdir -p /var/tmp/cooklang-verif evidence logs replays
echo setup ok
