//! Native companion of the solver checks: dumps closed terms (tables) computed by the real code and
//! replays solver models against the real functions.  Linked against the scratch copy of /repo built
//! with `--cfg cooklang_verif`.
use cooklang::convert::{Converter, PhysicalQuantity, System};
use cooklang::quantity::{Number, Value};
use serde_json::json;

fn f(s: &str) -> f64 {
    if let Some(h) = s.strip_prefix("bits:") {
        f64::from_bits(u64::from_str_radix(h, 16).unwrap())
    } else {
        s.parse().unwrap()
    }
}

fn num_json(n: &Number) -> serde_json::Value {
    match *n {
        Number::Regular(v) => json!({"kind":"Regular","v":v, "bits": format!("{:016x}", v.to_bits())}),
        Number::Fraction { whole, num, den, err } => {
            json!({"kind":"Fraction","whole":whole,"num":num,"den":den,"err":err, "err_bits": format!("{:016x}", err.to_bits()),
                   "value": n.value(), "value_bits": format!("{:016x}", n.value().to_bits()), "display": format!("{}", n)})
        }
    }
}

fn val_json(v: &Value) -> serde_json::Value {
    match v {
        Value::Number(n) => json!({"kind":"Number","n":num_json(n)}),
        Value::Range { start, end } => json!({"kind":"Range","start":num_json(start),"end":num_json(end)}),
        Value::Text(t) => json!({"kind":"Text","t":t}),
    }
}

fn parse_number(a: &[String]) -> (Number, usize) {
    match a[0].as_str() {
        "R" => (Number::Regular(f(&a[1])), 2),
        "F" => (
            Number::Fraction { whole: a[1].parse().unwrap(), num: a[2].parse().unwrap(), den: a[3].parse().unwrap(), err: f(&a[4]) },
            5,
        ),
        _ => panic!("number"),
    }
}

fn amount_in(c: &Converter, q: &cooklang::quantity::ScaledQuantity, unit: &str) -> Option<(f64, f64)> {
    use cooklang::convert::{ConvertTo, ConvertUnit, ConvertValue};
    let u = q.unit()?;
    let (s, e) = match q.value() {
        Value::Number(n) => (n.value(), n.value()),
        Value::Range { start, end } => (start.value(), end.value()),
        Value::Text(_) => return None,
    };
    let conv = |x: f64| match c.convert(ConvertValue::Number(x), ConvertUnit::Key(u), ConvertTo::Unit(ConvertUnit::Key(unit))) {
        Ok((ConvertValue::Number(n), _)) => Some(n),
        _ => None,
    };
    Some((conv(s)?, conv(e)?))
}

fn close(a: f64, b: f64) -> bool {
    (a - b).abs() <= 1e-9 * (a.abs() + b.abs()) + 1e-12
}

fn scale_scenario(factor: f64, a: f64, s: f64, e: f64) -> serde_json::Value {
    use cooklang::scale::ScaleOutcome;
    let text = format!(
        ">> servings: 4|2|8\n@flour{{{a}%g}} @salt{{=1.25%tsp}} @water{{{s}-{e}%l}} @pepper{{some}} @egg{{1 1/2}} #pan{{2}} ~rest{{10%min}} @oil{{=2-3%tbsp}} @sugar{{{a}%zz}} #bowl ~{{5%min}}\n"
    );
    let parser = cooklang::CooklangParser::extended();
    let c = parser.converter().clone();
    let mut problems: Vec<String> = vec![];
    let parse = || parser.parse(&text).into_output();
    let Some(base) = parse() else { return json!({"problems": ["scenario recipe does not parse"], "text": text}) };
    let names: Vec<String> = base.ingredients.iter().map(|i| i.name.clone()).collect();
    let sections = base.sections.clone();
    let meta_servings = base.servings().map(|s| s.to_vec());
    let run = std::panic::catch_unwind(|| {
        let mut problems: Vec<String> = vec![];
        let scaled = parse().unwrap().scale(factor, &c);
        let data = match scaled.scaled_data() { Some(d) => d, None => { problems.push("scaled recipe reports default scaling".into()); return problems; } };
        if data.ingredients.len() != scaled.ingredients.len() || data.cookware.len() != scaled.cookware.len() || data.timers.len() != scaled.timers.len() {
            problems.push("outcome lists do not line up with the components".into());
            return problems;
        }
        if scaled.sections != sections { problems.push("steps/sections changed by scaling".into()); }
        let got_names: Vec<String> = scaled.ingredients.iter().map(|i| i.name.clone()).collect();
        if got_names != names { problems.push("ingredient names changed".into()); }
        let oc = |o: &ScaleOutcome| match o { ScaleOutcome::Scaled => "scaled", ScaleOutcome::Fixed => "fixed", ScaleOutcome::NoQuantity => "noquantity", ScaleOutcome::Error(_) => "error" };
        let mut expect_amount = |idx: usize, unit: &str, lo: f64, hi: f64, outcome: &str| {
            let i = &scaled.ingredients[idx];
            match i.quantity.as_ref().and_then(|q| amount_in(&c, q, unit)) {
                Some((x, y)) => if !close(x, lo) || !close(y, hi) { problems.push(format!("{}: amount {}..{} {} expected {}..{} (shown as {})", i.name, x, y, unit, lo, hi, i.quantity.as_ref().unwrap())); },
                None => problems.push(format!("{}: no numeric amount in {}", i.name, unit)),
            }
            if oc(&data.ingredients[idx]) != outcome { problems.push(format!("{}: outcome {} expected {}", i.name, oc(&data.ingredients[idx]), outcome)); }
        };
        expect_amount(0, "g", a * factor, a * factor, "scaled");
        expect_amount(1, "tsp", 1.25, 1.25, "fixed");
        expect_amount(2, "l", s * factor, e * factor, "scaled");
        expect_amount(5, "tbsp", 2.0, 3.0, "fixed");
        // text value kept verbatim
        match scaled.ingredients[3].quantity.as_ref().map(|q| q.value()) {
            Some(Value::Text(t)) if t == "some" => {}
            other => problems.push(format!("pepper: text value changed to {:?}", other)),
        }
        if oc(&data.ingredients[3]) != "fixed" { problems.push(format!("pepper: outcome {}", oc(&data.ingredients[3]))); }
        // unitless fraction 1 1/2
        match scaled.ingredients[4].quantity.as_ref() {
            Some(q) if q.unit().is_none() => match q.value() { Value::Number(n) if close(n.value(), 1.5 * factor) => {}, v => problems.push(format!("egg: {:?} expected {}", v, 1.5 * factor)) },
            other => problems.push(format!("egg: {:?}", other)),
        }
        // unknown unit: number scaled, unit kept
        match scaled.ingredients[6].quantity.as_ref() {
            Some(q) if q.unit() == Some("zz") => match q.value() { Value::Number(n) if close(n.value(), a * factor) => {}, v => problems.push(format!("sugar: {:?} expected {}", v, a * factor)) },
            other => problems.push(format!("sugar: {:?}", other)),
        }
        if oc(&data.ingredients[6]) != "scaled" { problems.push("sugar: outcome".into()); }
        // cookware: never scaled
        match scaled.cookware[0].quantity.as_ref() { Some(Value::Number(n)) if n.value() == 2.0 => {}, other => problems.push(format!("pan: quantity {:?} expected 2", other)) }
        if oc(&data.cookware[0]) != "fixed" { problems.push(format!("pan: outcome {}", oc(&data.cookware[0]))); }
        if scaled.cookware[1].quantity.is_some() || oc(&data.cookware[1]) != "noquantity" { problems.push("bowl: expected no quantity".into()); }
        // timers: never scaled
        for (idx, mins) in [(0usize, 10.0f64), (1, 5.0)] {
            match scaled.timers[idx].quantity.as_ref().and_then(|q| amount_in(&c, q, "min")) {
                Some((x, y)) if close(x, mins) && close(y, mins) => {}
                other => problems.push(format!("timer {}: {:?} expected {} min", idx, other, mins)),
            }
            if oc(&data.timers[idx]) != "fixed" { problems.push(format!("timer {}: outcome {}", idx, oc(&data.timers[idx]))); }
        }
        // default scaling returns the written values verbatim
        let d = parse().unwrap().default_scale();
        if !d.is_default_scaled() { problems.push("default_scale not reported as default".into()); }
        match d.ingredients[0].quantity.as_ref().map(|q| (q.value().clone(), q.unit().map(|s| s.to_string()))) {
            Some((Value::Number(n), Some(u))) if n.value() == a && u == "g" => {}
            other => problems.push(format!("default scale flour: {:?}", other)),
        }
        match d.ingredients[2].quantity.as_ref().map(|q| q.value().clone()) {
            Some(Value::Range { start, end }) if start.value() == s && end.value() == e => {}
            other => problems.push(format!("default scale water: {:?}", other)),
        }
        // servings: scaling to n equals scaling by n / first declared servings
        if meta_servings.as_deref() != Some(&[4, 2, 8][..]) { problems.push(format!("servings read as {:?}", meta_servings)); }
        let n = 7u32;
        let by_servings = parse().unwrap().scale_to_servings(n, &c);
        let by_factor = parse().unwrap().scale(n as f64 / 4.0, &c);
        if by_servings.ingredients != by_factor.ingredients { problems.push("scale_to_servings(7) differs from scale(7/4) (servings 4|2|8)".into()); }
        match by_servings.scaled_data() { Some(dd) if close(dd.target.factor(), 1.75) => {}, _ => problems.push("scale_to_servings target factor".into()) }
        problems
    });
    match run {
        Ok(p) => problems.extend(p),
        Err(_) => problems.push("panic while scaling".into()),
    }
    json!({"problems": problems, "text": text})
}

fn main() {
    let args: Vec<String> = std::env::args().collect();
    let cmd = args.get(1).map(|s| s.as_str()).unwrap_or("");
    match cmd {
        "table" => {
            let t = cooklang::quantity::verif_hooks::fraction_table();
            let (ratio, denoms) = cooklang::quantity::verif_hooks::fraction_consts();
            let rows: Vec<_> = t.iter().map(|(k, (n, d))| json!([k, n, d])).collect();
            println!("{}", json!({"table": rows, "fix_ratio": ratio, "denoms": denoms}));
        }
        "units" => {
            let c = Converter::bundled();
            let mut units = vec![];
            for u in c.all_units() {
                units.push(json!({
                    "symbol": u.symbol(), "names": u.names.iter().map(|s| s.to_string()).collect::<Vec<_>>(),
                    "symbols": u.symbols.iter().map(|s| s.to_string()).collect::<Vec<_>>(),
                    "aliases": u.aliases.iter().map(|s| s.to_string()).collect::<Vec<_>>(),
                    "ratio": u.ratio, "difference": u.difference,
                    "quantity": u.physical_quantity.to_string(),
                    "system": u.system.map(|s| s.to_string()),
                    "is_best": c.is_best_unit(u),
                }));
            }
            let mut best = vec![];
            for q in [PhysicalQuantity::Volume, PhysicalQuantity::Mass, PhysicalQuantity::Length, PhysicalQuantity::Temperature, PhysicalQuantity::Time] {
                for s in [Some(System::Metric), Some(System::Imperial)] {
                    let l: Vec<_> = c.best_units(q, s).iter().map(|u| u.symbol().to_string()).collect();
                    best.push(json!({"quantity": q.to_string(), "system": s.map(|s| s.to_string()), "units": l}));
                }
            }
            println!("{}", json!({"units": units, "best": best, "default_system": c.default_system().to_string()}));
        }
        "new_approx" => {
            let r = Number::new_approx(f(&args[2]), f(&args[3]) as f32, args[4].parse().unwrap(), args[5].parse().unwrap());
            println!("{}", match r { Some(n) => num_json(&n), None => json!(null) });
        }
        "number_value" => {
            let (n, _) = parse_number(&args[2..]);
            println!("{}", json!({"value": n.value(), "bits": format!("{:016x}", n.value().to_bits()), "display": format!("{}", n)}));
        }
        "lookup" => {
            let r = cooklang::quantity::verif_hooks::fraction_lookup(f(&args[2]), args[3].parse().unwrap());
            println!("{}", json!(r));
        }
        "convert" => {
            // convert <value> <from-key> <to-key>   (raw affine kernel on the bundled units)
            let c = Converter::bundled();
            let a = c.find_unit(&args[3]).expect("from");
            let b = c.find_unit(&args[4]).expect("to");
            let r = std::panic::catch_unwind(|| cooklang::convert::verif_hooks::convert_raw(f(&args[2]), &a, &b));
            match r {
                Ok(v) => println!("{}", json!({"value": v, "bits": format!("{:016x}", v.to_bits())})),
                Err(_) => println!("{}", json!({"panic": true})),
            }
        }
        "convert_api" => {
            // convert_api N <v> <from> <to> | R <s> <e> <from> <to> | B N <v> <from> <metric|imperial>   (public Converter::convert)
            use cooklang::convert::{ConvertTo, ConvertUnit, ConvertValue};
            let c = Converter::bundled();
            let (val, k) = match args[2].as_str() {
                "N" => (ConvertValue::Number(f(&args[3])), 4),
                _ => (ConvertValue::Range(f(&args[3])..=f(&args[4])), 5),
            };
            let to = match args[k + 1].as_str() {
                "metric" => ConvertTo::Best(System::Metric),
                "imperial" => ConvertTo::Best(System::Imperial),
                "same" => ConvertTo::SameSystem,
                key => ConvertTo::Unit(ConvertUnit::Key(key)),
            };
            let r = std::panic::catch_unwind(|| c.convert(val, ConvertUnit::Key(&args[k]), to));
            match r {
                Ok(Ok((ConvertValue::Number(n), u))) => println!("{}", json!({"kind":"Number","n":n,"unit":u.symbol()})),
                Ok(Ok((ConvertValue::Range(r), u))) => println!("{}", json!({"kind":"Range","s":r.start(),"e":r.end(),"unit":u.symbol()})),
                Ok(Err(e)) => println!("{}", json!({"err": e.to_string()})),
                Err(_) => println!("{}", json!({"panic": true})),
            }
        }
        "scale_scenario" => {
            // scale_scenario <factor> <a> <s> <e>: parse a recipe containing every kind of value, scale it through
            // the public API and compare physical amounts with the documented behaviour.
            println!("{}", scale_scenario(f(&args[2]), f(&args[3]), f(&args[4]), f(&args[5])));
        }
        "parse_report" => {
            // parse_report <extended|canonical> <text>: diagnostics of a parse through the public API
            let parser = if args[2] == "canonical" { cooklang::CooklangParser::canonical() } else { cooklang::CooklangParser::extended() };
            let text = args[3].replace("\\n", "\n");
            let r = std::panic::catch_unwind(|| {
                let res = parser.parse(&text);
                let errors: Vec<String> = res.report().errors().map(|e| e.to_string()).collect();
                let warnings: Vec<String> = res.report().warnings().map(|e| e.to_string()).collect();
                let diags: Vec<serde_json::Value> = res.report().iter().map(|d| json!({"message": d.to_string(), "stage": format!("{:?}", d.stage), "severity": format!("{:?}", d.severity)})).collect();
                json!({"valid": res.is_valid(), "has_output": res.has_output(), "errors": errors, "warnings": warnings, "diags": diags})
            });
            match r { Ok(v) => println!("{}", v), Err(_) => println!("{}", json!({"panic": true})) }
        }
        "group_scenario" => {
            // group_scenario an bn as ae bs be : Value::try_add on every kind pair and GroupedValue::add histories
            use cooklang::quantity::{GroupedValue, TryAdd};
            let v: Vec<f64> = args[2..8].iter().map(|s| f(s)).collect();
            let (an, bn, a_s, a_e, b_s, b_e) = (v[0], v[1], v[2], v[3], v[4], v[5]);
            let num = |x: f64| Value::Number(Number::Regular(x));
            let rng = |s: f64, e: f64| Value::Range { start: Number::Regular(s), end: Number::Regular(e) };
            let frac = Value::Number(Number::Fraction { whole: 1, num: 1, den: 2, err: 0.0 });
            let txt = |s: &str| Value::Text(s.to_string());
            let mut problems: Vec<String> = vec![];
            let ends = |v: &Value| -> Option<(f64, f64, bool)> { match v { Value::Number(n) => Some((n.value(), n.value(), false)), Value::Range { start, end } => Some((start.value(), end.value(), true)), _ => None } };
            let mut expect = |name: &str, a: &Value, b: &Value| {
                let r = std::panic::catch_unwind(|| a.try_add(b));
                let (ea, eb) = (ends(a), ends(b));
                match (r, ea, eb) {
                    (Err(_), _, _) => problems.push(format!("{name}: try_add panicked")),
                    (Ok(Ok(out)), Some((s1, e1, r1)), Some((s2, e2, r2))) => match ends(&out) {
                        Some((s, e, r)) => { if r != (r1 || r2) || !close(s, s1 + s2) || !close(e, e1 + e2) { problems.push(format!("{name}: {:?} + {:?} = {:?}", a, b, out)); } }
                        None => problems.push(format!("{name}: numeric sum became text")),
                    },
                    (Ok(Ok(out)), _, _) => problems.push(format!("{name}: text operand accepted, got {:?}", out)),
                    (Ok(Err(e)), Some(_), Some(_)) => problems.push(format!("{name}: numeric operands refused: {e}")),
                    (Ok(Err(e)), _, _) => { let t = if a.is_text() { a } else { b }; if &e.0 != t { problems.push(format!("{name}: error carries {:?} instead of {:?}", e.0, t)); } }
                }
            };
            use cooklang::quantity::QuantityValue;
            expect("N+N", &num(an), &num(bn));
            expect("N+R", &num(an), &rng(b_s, b_e));
            expect("R+N", &rng(a_s, a_e), &num(bn));
            expect("R+R", &rng(a_s, a_e), &rng(b_s, b_e));
            expect("F+N", &frac, &num(bn));
            // fractions that carry an approximation error (as produced by a lossy fit): the error is part of the amount
            let fr = |w: u32, n: u32, d: u32, e: f64| Value::Number(Number::Fraction { whole: w, num: n, den: d, err: e });
            expect("F+Fe", &fr(0, 1, 3, 0.0), &fr(0, 1, 3, 0.0125));
            expect("Fe+F", &fr(0, 1, 3, 0.0125), &fr(0, 1, 3, 0.0));
            expect("Fe+Fe", &fr(1, 1, 4, -0.01), &fr(2, 3, 4, 0.02));
            expect("R+Fe", &rng(a_s, a_e), &fr(0, 1, 4, 0.01));
            expect("Fe+R", &fr(0, 1, 2, 0.02), &Value::Range { start: Number::Fraction { whole: 0, num: 1, den: 2, err: 0.003 }, end: Number::Regular(b_e) });
            expect("T+N", &txt("pinch"), &num(bn));
            expect("R+T", &rng(a_s, a_e), &txt("some"));
            expect("T+T", &txt("a"), &txt("b"));
            // grouped value histories
            let hist: Vec<Vec<Value>> = vec![
                vec![txt("x"), num(an), txt("y"), rng(b_s, b_e), num(bn)],
                vec![num(an), num(bn), txt("x")],
                vec![txt("x"), txt("y"), rng(a_s, a_e)],
                vec![rng(a_s, a_e), txt("x"), frac.clone(), txt("x")],
                vec![fr(1, 1, 2, 0.0), fr(0, 1, 2, 0.02), fr(2, 1, 2, -0.015)],
            ];
            for h in &hist {
                let r = std::panic::catch_unwind(|| { let mut g = GroupedValue::empty(); for v in h { g.add(v); } g.into_vec() });
                match r {
                    Err(_) => problems.push(format!("GroupedValue::add panicked on {:?}", h)),
                    Ok(out) => {
                        let texts: Vec<&Value> = h.iter().filter(|v| v.is_text()).collect();
                        let nums: Vec<&Value> = h.iter().filter(|v| !v.is_text()).collect();
                        let want_len = texts.len() + if nums.is_empty() { 0 } else { 1 };
                        if out.len() != want_len { problems.push(format!("group of {:?} has {} entries, expected {}", h, out.len(), want_len)); continue; }
                        let off = if nums.is_empty() { 0 } else { 1 };
                        for (i, t) in texts.iter().enumerate() { if &&out[off + i] != t { problems.push(format!("text entry {} changed or reordered: {:?}", i, out)); } }
                        if !nums.is_empty() {
                            let (mut s, mut e, mut r) = (0.0, 0.0, false);
                            for n in &nums { let (a, b, rr) = ends(n).unwrap(); s += a; e += b; r |= rr; }
                            match ends(&out[0]) { Some((gs, ge, gr)) if gr == r && close(gs, s) && close(ge, e) => {}, other => problems.push(format!("group total {:?} expected {}..{} for {:?}", other, s, e, h)) }
                        }
                    }
                }
            }
            // ScaledQuantity::try_add through the public API: the total is the sum of both amounts, in the left unit
            {
                let c = Converter::bundled();
                let q = |v: Value, u: Option<&str>| cooklang::quantity::Quantity::new(v, u.map(|s| s.to_string()));
                let cases: Vec<(cooklang::quantity::ScaledQuantity, cooklang::quantity::ScaledQuantity, &str, f64, f64)> = vec![
                    (q(num(1.0), Some("kg")), q(num(0.4), Some("g")), "g", 1000.4, 1000.4),
                    (q(num(2.0), Some("l")), q(num(0.25), Some("ml")), "ml", 2000.25, 2000.25),
                    (q(rng(2.0, 3.0), Some("l")), q(num(0.4), Some("ml")), "ml", 2000.4, 3000.4),
                    (q(num(an.abs() + 1.0), Some("cup")), q(num(bn.abs() + 0.0004), Some("cup")), "cup", an.abs() + bn.abs() + 1.0004, an.abs() + bn.abs() + 1.0004),
                ];
                for (l, r, unit, ws, we) in &cases {
                    match std::panic::catch_unwind(|| l.try_add(r, &c)) {
                        Err(_) => problems.push(format!("ScaledQuantity::try_add panicked on {} + {}", l, r)),
                        Ok(Err(e)) => problems.push(format!("{} + {} refused: {}", l, r, e)),
                        Ok(Ok(sum)) => {
                            if sum.unit() != l.unit() { problems.push(format!("{} + {}: unit became {:?}", l, r, sum.unit())); }
                            match amount_in(&c, &sum, unit) {
                                Some((s, e)) if close(s, *ws) && close(e, *we) => {}
                                other => problems.push(format!("{} + {} = {} i.e. {:?} {}, expected {}..{}", l, r, sum, other, unit, ws, we)),
                            }
                        }
                    }
                }
                // every pair of bundled units: compatible_unit hands out the LEFT unit, and the total is left + right expressed in it
                let syms: Vec<(String, cooklang::convert::PhysicalQuantity)> = c.all_units().map(|u| (u.symbol().to_string(), u.physical_quantity)).collect();
                let mut bad_pairs = 0;
                for (a, pa) in &syms {
                    for (b, pb) in &syms {
                        let (l, r) = (q(num(1.0), Some(a)), q(num(2.0), Some(b)));
                        let cu = match std::panic::catch_unwind(|| l.compatible_unit(&r, &c)) { Ok(x) => x, Err(_) => { problems.push(format!("compatible_unit panicked on {a} / {b}")); continue; } };
                        let msg = match (pa == pb, cu) {
                            (true, Ok(Some(u))) => {
                                let left = c.find_unit(a).unwrap();
                                if !std::sync::Arc::ptr_eq(&u, &left) && u.symbol() != left.symbol() { Some(format!("compatible_unit({a}, {b}) = {} instead of the left unit", u.symbol())) }
                                else {
                                    let want = amount_in(&c, &r, a).map(|(x, _)| 1.0 + x);
                                    match (l.try_add(&r, &c), want) {
                                        (Ok(sum), Some(w)) => match (sum.unit() == Some(a.as_str()), ends(sum.value())) {
                                            (true, Some((s, _, _))) if (s - w).abs() <= 1e-9 * (w.abs() + 1.0) => None,
                                            _ => Some(format!("1 {a} + 2 {b} = {sum}, expected {w} {a}")),
                                        },
                                        (Err(e), Some(_)) => Some(format!("1 {a} + 2 {b} refused: {e}")),
                                        (_, None) => None,
                                    }
                                }
                            }
                            (true, other) => Some(format!("compatible_unit({a}, {b}) = {:?} for units of one physical quantity", other.map(|o| o.map(|u| u.symbol().to_string())).map_err(|e| e.to_string()))),
                            (false, Err(_)) => None,
                            (false, Ok(x)) => Some(format!("compatible_unit({a}, {b}) accepted units of different physical quantities: {:?}", x.map(|u| u.symbol().to_string()))),
                        };
                        if let Some(m) = msg { bad_pairs += 1; if bad_pairs <= 3 { problems.push(m); } }
                    }
                }
                if bad_pairs > 3 { problems.push(format!("... and {} more unit pairs", bad_pairs - 3)); }
                // unitless
                let (l, r) = (q(num(0.0004), None), q(num(0.0004), None));
                match l.try_add(&r, &c) { Ok(sum) => match ends(sum.value()) { Some((s, _, _)) if close(s, 0.0008) => {}, o => problems.push(format!("0.0004 + 0.0004 = {:?}", o)) }, Err(e) => problems.push(format!("unitless add refused: {e}")) }
            }
            // GroupedQuantity: every input ends up in exactly one bucket; per unit the total is the sum; texts kept one per input
            {
                use cooklang::quantity::GroupedQuantity;
                let c = Converter::bundled();
                let q = |v: Value, u: Option<&str>| cooklang::quantity::Quantity::new(v, u.map(|s| s.to_string()));
                let build = |items: &Vec<cooklang::quantity::ScaledQuantity>| { let mut g = GroupedQuantity::empty(); for i in items { g.add(i, &c); } g };
                let count_text = |g: &GroupedQuantity, t: &str| g.iter().filter(|x| matches!(x.value(), Value::Text(s) if s == t)).count();
                let amount = |g: &GroupedQuantity, unit: &str| -> Vec<(f64, f64)> {
                    g.iter().filter(|x| !x.value().is_text()).filter_map(|x| if x.unit().is_none() { None } else { amount_in(&c, x, unit).or_else(|| if x.unit() == Some(unit) { ends(x.value()).map(|(a, b, _)| (a, b)) } else { None }) }).collect()
                };
                let h1 = vec![q(txt("a pinch"), None), q(num(2.0), None), q(txt("a pinch"), None), q(num(1.0), Some("kg")), q(num(0.4), Some("g")),
                              q(num(2.0), Some("bag")), q(num(1.0), Some("bag")), q(num(1.0), Some("can")), q(txt("some"), Some("g")), q(txt("some"), Some("g")),
                              q(num(2.0), Some("Tin")), q(num(5.0), Some("Tin")), q(num(1.0), Some(" tin"))];
                match std::panic::catch_unwind(|| build(&h1)) {
                    Err(_) => problems.push("GroupedQuantity::add panicked".into()),
                    Ok(g) => {
                        if count_text(&g, "a pinch") != 2 { problems.push(format!("GroupedQuantity: \"a pinch\" added twice is listed {} time(s): {}", count_text(&g, "a pinch"), g)); }
                        if count_text(&g, "some") != 2 { problems.push(format!("GroupedQuantity: text \"some g\" added twice is listed {} time(s): {}", count_text(&g, "some"), g)); }
                        match amount(&g, "g").as_slice() { [(s, e)] if close(*s, 1000.4) && close(*e, 1000.4) => {}, o => problems.push(format!("GroupedQuantity: mass total {:?} expected 1000.4 g ({})", o, g)) }
                        match amount(&g, "bag").as_slice() { [(s, _)] if close(*s, 3.0) => {}, o => problems.push(format!("GroupedQuantity: bags {:?} expected 3 ({})", o, g)) }
                        match amount(&g, "Tin").as_slice() { [(s, _)] if close(*s, 7.0) => {}, o => problems.push(format!("GroupedQuantity: unknown unit \"Tin\" added as 2 + 5: {:?} expected 7 ({})", o, g)) }
                        match amount(&g, " tin").as_slice() { [(s, _)] if close(*s, 1.0) => {}, o => problems.push(format!("GroupedQuantity: unknown unit \" tin\": {:?} expected 1 ({})", o, g)) }
                        match amount(&g, "can").as_slice() { [(s, _)] if close(*s, 1.0) => {}, o => problems.push(format!("GroupedQuantity: cans {:?} expected 1 ({})", o, g)) }
                    }
                }
                // merge of two groups = adding everything of the second to the first
                let a = vec![q(num(2.0), Some("bag")), q(num(100.0), Some("g")), q(num(1.0), None), q(num(3.0), Some("sprig"))];
                let b = vec![q(num(50.0), Some("g")), q(num(4.0), Some("bag")), q(num(2.0), None), q(num(1.0), Some("can")), q(txt("big"), None)];
                match std::panic::catch_unwind(|| { let mut g = build(&a); let o = build(&b); g.merge(&o, &c); g }) {
                    Err(_) => problems.push("GroupedQuantity::merge panicked".into()),
                    Ok(g) => {
                        match amount(&g, "bag").as_slice() { [(s, _)] if close(*s, 6.0) => {}, o => problems.push(format!("GroupedQuantity::merge: bags {:?} expected 6 ({})", o, g)) }
                        match amount(&g, "g").as_slice() { [(s, _)] if close(*s, 150.0) => {}, o => problems.push(format!("GroupedQuantity::merge: grams {:?} expected 150 ({})", o, g)) }
                        match amount(&g, "sprig").as_slice() { [(s, _)] if close(*s, 3.0) => {}, o => problems.push(format!("GroupedQuantity::merge: sprigs {:?} expected 3 ({})", o, g)) }
                        match amount(&g, "can").as_slice() { [(s, _)] if close(*s, 1.0) => {}, o => problems.push(format!("GroupedQuantity::merge: cans {:?} expected 1 ({})", o, g)) }
                        let unitless: Vec<f64> = g.iter().filter(|x| x.unit().is_none() && !x.value().is_text()).filter_map(|x| ends(x.value()).map(|e| e.0)).collect();
                        if unitless.len() != 1 || !close(unitless[0], 3.0) { problems.push(format!("GroupedQuantity::merge: unitless {:?} expected [3] ({})", unitless, g)); }
                        if count_text(&g, "big") != 1 { problems.push(format!("GroupedQuantity::merge: text lost ({})", g)); }
                    }
                }
            }
            // merges: every text of both groups kept in order, numeric totals summed
            let merges: Vec<(Vec<Value>, Vec<Value>)> = vec![
                (vec![num(an)], vec![txt("big")]),
                (vec![], vec![txt("big"), txt("small")]),
                (vec![num(an), txt("a lid")], vec![txt("big"), txt("small")]),
                (vec![txt("x")], vec![rng(b_s, b_e), txt("y")]),
                (vec![num(an), txt("x")], vec![num(bn)]),
                (vec![rng(a_s, a_e)], vec![]),
            ];
            for (h1, h2) in &merges {
                let r = std::panic::catch_unwind(|| {
                    let mut g1 = GroupedValue::empty();
                    for v in h1 { g1.add(v); }
                    let mut g2 = GroupedValue::empty();
                    for v in h2 { g2.add(v); }
                    g1.merge(&g2);
                    g1.into_vec()
                });
                match r {
                    Err(_) => problems.push(format!("GroupedValue::merge panicked on {:?} <- {:?}", h1, h2)),
                    Ok(out) => {
                        let all: Vec<&Value> = h1.iter().chain(h2.iter()).collect();
                        let texts: Vec<&&Value> = all.iter().filter(|v| v.is_text()).collect();
                        let nums: Vec<&&Value> = all.iter().filter(|v| !v.is_text()).collect();
                        let want_len = texts.len() + if nums.is_empty() { 0 } else { 1 };
                        if out.len() != want_len { problems.push(format!("merge {:?} <- {:?} has {} entries {:?}, expected {}", h1, h2, out.len(), out, want_len)); continue; }
                        let off = if nums.is_empty() { 0 } else { 1 };
                        for (i, t) in texts.iter().enumerate() { if &&&out[off + i] != t { problems.push(format!("merge {:?} <- {:?}: text entry {} lost or reordered: {:?}", h1, h2, i, out)); } }
                        if !nums.is_empty() {
                            let (mut s, mut e, mut r) = (0.0, 0.0, false);
                            for n in &nums { let (a, b, rr) = ends(n).unwrap(); s += a; e += b; r |= rr; }
                            match ends(&out[0]) { Some((gs, ge, gr)) if gr == r && close(gs, s) && close(ge, e) => {}, other => problems.push(format!("merge total {:?} expected {}..{}", other, s, e)) }
                        }
                    }
                }
            }
            println!("{}", json!({"problems": problems}));
        }
        "convert_fraction" => {
            // convert_fraction <whole> <num> <den> <err> <from> <to>: ScaledQuantity::convert of a fraction carrying a recorded error
            use cooklang::convert::{ConvertTo, ConvertUnit};
            let c = Converter::bundled();
            let n = Number::Fraction { whole: args[2].parse().unwrap(), num: args[3].parse().unwrap(), den: args[4].parse().unwrap(), err: f(&args[5]) };
            let mut q = cooklang::quantity::Quantity::new(Value::Number(n), Some(args[6].clone()));
            let r = std::panic::catch_unwind(move || { let r = q.convert(ConvertTo::Unit(ConvertUnit::Key(&args[7])), &c); (r.is_ok(), q) });
            match r {
                Ok((true, q)) => match q.value() { Value::Number(n) => println!("{}", json!({"n": n.value(), "unit": q.unit()})), v => println!("{}", json!({"error": format!("{:?}", v)})) },
                Ok((false, _)) => println!("{}", json!({"error": "conversion refused"})),
                Err(_) => println!("{}", json!({"error": "panic"})),
            }
        }
        "step_numbers" => {
            // step_numbers <text>: per section, the numbers of its steps (public parser, all extensions)
            let parser = cooklang::CooklangParser::extended();
            let text = args[2].replace("\\n", "\n");
            let r = std::panic::catch_unwind(|| parser.parse(&text).into_output().map(|r| {
                r.sections.iter().map(|s| s.content.iter().filter_map(|c| match c { cooklang::Content::Step(st) => Some(st.number), _ => None }).collect::<Vec<u32>>()).collect::<Vec<_>>()
            }));
            match r { Ok(Some(v)) => println!("{}", json!({"sections": v})), Ok(None) => println!("{}", json!({"error": "no output"})), Err(_) => println!("{}", json!({"panic": true})) }
        }
        "convert_raw" => {
            // convert_raw <value> <ratio_a> <diff_a> <ratio_b> <diff_b>
            let c = Converter::bundled();
            let mut a = (*c.find_unit("g").unwrap()).clone();
            let mut b = a.clone();
            a.ratio = f(&args[3]);
            a.difference = f(&args[4]);
            b.ratio = f(&args[5]);
            b.difference = f(&args[6]);
            let v = cooklang::convert::verif_hooks::convert_raw(f(&args[2]), &a, &b);
            println!("{}", json!({"value": v, "bits": format!("{:016x}", v.to_bits())}));
        }
        "linear_scale" => {
            // linear_scale <factor> N <number> | R <number> <number> | T
            let factor = f(&args[2]);
            let v = match args[3].as_str() {
                "N" => Value::Number(parse_number(&args[4..]).0),
                "R" => {
                    let (s, k) = parse_number(&args[4..]);
                    let (e, _) = parse_number(&args[4 + k..]);
                    Value::Range { start: s, end: e }
                }
                _ => Value::Text("x".into()),
            };
            let r = cooklang::scale::verif_hooks::linear_scale_pub(v, factor);
            println!("{}", match r { Some(v) => val_json(&v), None => json!(null) });
        }
        "try_add" => {
            use cooklang::quantity::TryAdd;
            let mk = |a: &[String]| -> (Value, usize) {
                match a[0].as_str() {
                    "N" => { let (n, k) = parse_number(&a[1..]); (Value::Number(n), k + 1) }
                    "R" => { let (s, k) = parse_number(&a[1..]); let (e, k2) = parse_number(&a[1 + k..]); (Value::Range { start: s, end: e }, 1 + k + k2) }
                    _ => (Value::Text("x".into()), 1),
                }
            };
            let (a, k) = mk(&args[2..]);
            let (b, _) = mk(&args[2 + k..]);
            println!("{}", match a.try_add(&b) { Ok(v) => val_json(&v), Err(_) => json!(null) });
        }
        "time" => {
            // public accessor path
            use cooklang::metadata::CooklangValueExt;
            let v = serde_yaml::Value::String(args[2].clone());
            let conv = if args.get(3).map(|s| s == "bundled").unwrap_or(false) { Converter::bundled() } else { Converter::empty() };
            let r = std::panic::catch_unwind(|| v.as_minutes(&conv));
            match r {
                Ok(m) => println!("{}", json!({"minutes": m})),
                Err(_) => println!("{}", json!({"panic": true})),
            }
        }
        "best_units" => {
            // best_units <json list>: build a converter whose best units for `time` are the given names (`m` is a unit of length)
            let file = format!(r#"{{"quantity":[
                {{"quantity":"time","best":{best},"units":[{{"names":["minute"],"symbols":["min"],"ratio":60}},{{"names":["second"],"symbols":["s"],"ratio":1}}]}},
                {{"quantity":"length","best":["m"],"units":[{{"names":["metre"],"symbols":["m"],"ratio":1}}]}},
                {{"quantity":"volume","best":["l"],"units":[{{"names":["litre"],"symbols":["l"],"ratio":1}}]}},
                {{"quantity":"mass","best":["g"],"units":[{{"names":["gram"],"symbols":["g"],"ratio":1}}]}},
                {{"quantity":"temperature","best":["C"],"units":[{{"names":["celsius"],"symbols":["C"],"ratio":1}}]}}]}}"#, best = args[2]);
            let uf: cooklang::convert::units_file::UnitsFile = match serde_json::from_str(&file) { Ok(u) => u, Err(e) => { println!("{}", json!({"outcome": "bad-scenario", "detail": e.to_string()})); return; } };
            match std::panic::catch_unwind(|| Converter::builder().with_units_file(uf).and_then(|b| b.finish())) {
                Ok(Ok(c)) => {
                    // a built converter: the best units of time are units of time
                    let wrong: Vec<String> = c.best_units(cooklang::convert::PhysicalQuantity::Time, None).iter().filter(|u| u.physical_quantity != cooklang::convert::PhysicalQuantity::Time).map(|u| u.symbol().to_string()).collect();
                    let bl = c.best_units(cooklang::convert::PhysicalQuantity::Time, None);
                    let unordered = bl.windows(2).any(|w| w[0].ratio > w[1].ratio);
                    if wrong.is_empty() && unordered {
                        println!("{}", json!({"outcome": "unordered", "detail": format!("best units of time are not in increasing size: {:?}", bl.iter().map(|u| u.symbol().to_string()).collect::<Vec<_>>())}))
                    } else if wrong.is_empty() { println!("{}", json!({"outcome": "ok"})) } else { println!("{}", json!({"outcome": "inconsistent", "detail": format!("best units of time contain {:?}", wrong)})) }
                }
                Ok(Err(e)) => println!("{}", json!({"outcome": "error", "detail": e.to_string()})),
                Err(_) => println!("{}", json!({"outcome": "panic"})),
            }
        }
        "aisle" => {
            // aisle <text>: the aisle configuration parser through the public API
            let text = args[2].replace("\\n", "\n");
            match std::panic::catch_unwind(|| match cooklang::aisle::parse(&text) {
                Ok(conf) => json!({"categories": conf.categories.iter().map(|c| json!([c.name, c.ingredients.iter().map(|i| i.names.clone()).collect::<Vec<_>>()])).collect::<Vec<_>>()}),
                Err(e) => {
                    use cooklang::aisle::AisleConfError as E;
                    let (kind, spans, name): (&str, Vec<cooklang::span::Span>, Option<String>) = match &e {
                        E::Parse { span, .. } => ("Parse", vec![*span], None),
                        E::DuplicateCategory { name, first_span, second_span } => ("DuplicateCategory", vec![*first_span, *second_span], Some(name.clone())),
                        E::DuplicateIngredient { name, first_span, second_span } => ("DuplicateIngredient", vec![*first_span, *second_span], Some(name.clone())),
                    };
                    // every span lies inside the input, on character boundaries, and (for duplicates) covers the duplicated name
                    let span_ok = spans.iter().all(|sp| sp.start() <= sp.end() && sp.end() <= text.len() && text.is_char_boundary(sp.start()) && text.is_char_boundary(sp.end())
                        && name.as_ref().map(|n| &text[sp.range()] == n.as_str()).unwrap_or(true));
                    json!({"error_kind": kind, "span_ok": span_ok, "spans": spans.iter().map(|sp| vec![sp.start(), sp.end()]).collect::<Vec<_>>()})
                }
            }) {
                Ok(v) => println!("{}", v),
                Err(_) => println!("{}", json!({"panic": true})),
            }
        }
        "tags" => {
            // tags <json string | json list>: the tags accessor on a YAML string or sequence
            use cooklang::metadata::CooklangValueExt;
            let j: serde_json::Value = serde_json::from_str(&args[2]).expect("json");
            let v = match &j {
                serde_json::Value::String(s) => serde_yaml::Value::String(s.clone()),
                serde_json::Value::Array(a) => serde_yaml::Value::Sequence(a.iter().map(|x| serde_yaml::Value::String(x.as_str().unwrap().to_string())).collect()),
                _ => serde_yaml::Value::Null,
            };
            match std::panic::catch_unwind(|| v.as_tags().map(|t| t.into_iter().map(|c| c.to_string()).collect::<Vec<_>>())) {
                Ok(t) => println!("{}", json!({"tags": t})),
                Err(_) => println!("{}", json!({"panic": true})),
            }
        }
        "time_renamed" => {
            // time_renamed <metre|minute> <string>: the duration accessor with a converter whose time units are renamed;
            // `m` is the metre (and no unit is called min/minute/minutes) or `m` is the minute
            use cooklang::metadata::CooklangValueExt;
            let time_m = if args[2] == "minute" { r#"["mn","m"]"# } else { r#"["mn"]"# };
            let length = if args[2] == "minute" { r#"{"names":["metro"],"symbols":["mt"],"ratio":1}"# } else { r#"{"names":["metro"],"symbols":["m"],"ratio":1}"# };
            let file = format!(r#"{{"quantity":[
                {{"quantity":"time","best":["mn","hr"],"units":[{{"names":["minuto"],"symbols":{time_m},"ratio":60}},{{"names":["hora"],"symbols":["hr"],"ratio":3600}},{{"names":["segundo"],"symbols":["sg"],"ratio":1}}]}},
                {{"quantity":"length","best":["km"],"units":[{length},{{"names":["kilometro"],"symbols":["km"],"ratio":1000}}]}},
                {{"quantity":"volume","best":["lt"],"units":[{{"names":["litro"],"symbols":["lt"],"ratio":1}}]}},
                {{"quantity":"mass","best":["gr"],"units":[{{"names":["gramo"],"symbols":["gr"],"ratio":1}}]}},
                {{"quantity":"temperature","best":["gc"],"units":[{{"names":["grado"],"symbols":["gc"],"ratio":1}}]}}]}}"#);
            let uf: cooklang::convert::units_file::UnitsFile = match serde_json::from_str(&file) { Ok(u) => u, Err(e) => { println!("{}", json!({"error": format!("units file: {e}")})); return; } };
            let conv = match Converter::builder().with_units_file(uf).and_then(|b| b.finish()) { Ok(c) => c, Err(e) => { println!("{}", json!({"error": format!("builder: {e}")})); return; } };
            let v = serde_yaml::Value::String(args[3].clone());
            match std::panic::catch_unwind(|| v.as_minutes(&conv)) {
                Ok(m) => println!("{}", json!({"minutes": m})),
                Err(_) => println!("{}", json!({"panic": true})),
            }
        }
        "structure" => {
            // structure <all|no-advanced-units|none> <text>: parse through the public API and check the referential structure of the result
            use cooklang::{Extensions, Modifiers};
            use cooklang::model::IngredientReferenceTarget;
            use cooklang::quantity::QuantityValue as _;
            let ext = match args[2].as_str() { "all" => Extensions::all(), "none" => Extensions::empty(), _ => Extensions::all() - Extensions::ADVANCED_UNITS };
            let text = args[3].replace("\\n", "\n");
            let parser = cooklang::CooklangParser::new(ext, Converter::bundled());
            let r = std::panic::catch_unwind(|| {
                let mut problems: Vec<String> = vec![];
                let res = parser.parse(&text);
                let report = res.report().clone();
                // parser-level facts about each ingredient quantity, in order: (text value?, scaling lock?)
                let mut evq: Vec<Option<(bool, bool)>> = vec![];
                for ev in cooklang::parser::PullParser::new(&text, ext) {
                    if let cooklang::parser::Event::Ingredient(i) = ev {
                        evq.push(i.quantity.as_ref().map(|q| (q.value.value.is_text(), q.value.scaling_lock.is_some())));
                    }
                }
                for d in report.iter() {
                    if d.to_string().contains("Conflicting component reference quantities") {
                        if d.severity != cooklang::error::Severity::Error { problems.push("the conflicting-quantities diagnostic is not an error".into()); }
                        match (d.labels.get(0), d.labels.get(1)) {
                            (Some(a), Some(b)) => if a.0.start() < b.0.end() { problems.push(format!("conflicting-quantities error: primary label at {}..{} does not sit on the reference (definition at {}..{})", a.0.start(), a.0.end(), b.0.start(), b.0.end())); },
                            _ => problems.push("conflicting-quantities error without its two labels".into()),
                        }
                    }
                }
                let Some(recipe) = res.output() else { return json!({"problems": problems, "no_output": true}) };
                let lower = |s: &str| s.to_lowercase();
                for (i, igr) in recipe.ingredients.iter().enumerate() {
                    let is_ref_mod = igr.modifiers().contains(Modifiers::REF);
                    match igr.relation.references_to() {
                        Some((k, IngredientReferenceTarget::Ingredient)) => {
                            if !is_ref_mod { problems.push(format!("ingredient {i} ({}) is a reference without the reference modifier", igr.name)); }
                            match recipe.ingredients.get(k) {
                                Some(def) if k < i => {
                                    if !def.relation.is_definition() { problems.push(format!("ingredient {i} references {k}, which is itself a reference")); }
                                    if !def.relation.referenced_from().contains(&i) { problems.push(format!("ingredient {i} ({}) references {k} but is missing from its back links {:?}", igr.name, def.relation.referenced_from())); }
                                    if lower(&def.name) != lower(&igr.name) { problems.push(format!("ingredient {i} '{}' references '{}': names differ", igr.name, def.name)); }
                                }
                                _ => problems.push(format!("ingredient {i} references {k}: not an earlier ingredient")),
                            }
                        }
                        Some(_) => {}
                        None => { if is_ref_mod && igr.relation.is_definition() && res.is_valid() { problems.push(format!("ingredient {i} ({}) carries the reference modifier but is a definition", igr.name)); } }
                    }
                    for &j in igr.relation.referenced_from() {
                        match recipe.ingredients.get(j) {
                            Some(r) if matches!(r.relation.references_to(), Some((k, IngredientReferenceTarget::Ingredient)) if k == i) => {}
                            _ => problems.push(format!("ingredient {i} lists {j} as a reference, but {j} does not point back")),
                        }
                    }
                    // scaling kind: Linear unless text or locked (as written on THIS component)
                    if let (Some(q), Some(Some((is_text, locked)))) = (igr.quantity.as_ref(), evq.get(i)) {
                        let linear = matches!(q.value(), cooklang::quantity::ScalableValue::Linear(_));
                        if linear != (!is_text && !locked) { problems.push(format!("ingredient {i} ({}): quantity stored as {} but written {}{}", igr.name, if linear { "linear" } else { "fixed" }, if *is_text { "as text" } else { "as a number" }, if *locked { " with a lock" } else { " without a lock" })); }
                    }
                }
                for (i, cw) in recipe.cookware.iter().enumerate() {
                    let is_ref_mod = cw.modifiers().contains(Modifiers::REF);
                    match cw.relation.references_to() {
                        Some(k) => {
                            if !is_ref_mod { problems.push(format!("cookware {i} ({}) is a reference without the reference modifier", cw.name)); }
                            match recipe.cookware.get(k) {
                                Some(def) if k < i => {
                                    if !def.relation.is_definition() { problems.push(format!("cookware {i} references {k}, which is itself a reference")); }
                                    if !def.relation.referenced_from().contains(&i) { problems.push(format!("cookware {i} ({}) references {k} but is missing from its back links {:?}", cw.name, def.relation.referenced_from())); }
                                    if lower(&def.name) != lower(&cw.name) { problems.push(format!("cookware {i} '{}' references '{}': names differ", cw.name, def.name)); }
                                }
                                _ => problems.push(format!("cookware {i} references {k}: not an earlier item")),
                            }
                        }
                        None => { if is_ref_mod && res.is_valid() { problems.push(format!("cookware {i} ({}) carries the reference modifier but is a definition", cw.name)); } }
                    }
                    for &j in cw.relation.referenced_from() {
                        match recipe.cookware.get(j) { Some(r) if r.relation.references_to() == Some(i) => {}, _ => problems.push(format!("cookware {i} lists {j} as a reference, but {j} does not point back")) }
                    }
                }
                // step items address existing components, in document order
                let (mut last_i, mut last_c, mut last_t): (Option<usize>, Option<usize>, Option<usize>) = (None, None, None);
                for sec in &recipe.sections {
                    for content in &sec.content {
                        if let cooklang::Content::Step(step) = content {
                            for item in &step.items {
                                let (what, idx, len, last) = match item {
                                    cooklang::Item::Ingredient { index } => ("ingredient", *index, recipe.ingredients.len(), &mut last_i),
                                    cooklang::Item::Cookware { index } => ("cookware", *index, recipe.cookware.len(), &mut last_c),
                                    cooklang::Item::Timer { index } => ("timer", *index, recipe.timers.len(), &mut last_t),
                                    _ => continue,
                                };
                                if idx >= len { problems.push(format!("a step item addresses {what} {idx}, but there are only {len}")); }
                                if let Some(l) = *last { if idx <= l { problems.push(format!("step items address {what} {idx} after {l}: not in document order")); } }
                                *last = Some(idx);
                            }
                        }
                    }
                }
                for (i, t) in recipe.timers.iter().enumerate() {
                    if t.name.is_none() && t.quantity.is_none() { problems.push(format!("timer {i} has neither a name nor a quantity")); }
                }
                json!({"problems": problems, "valid": res.is_valid()})
            });
            match r { Ok(v) => println!("{}", v), Err(_) => println!("{}", json!({"panic": true})) }
        }
        "hard_units" => {
            let r = cooklang::metadata::verif_hooks::hard_coded_units(f(&args[2]), &args[3]);
            println!("{}", json!(r));
        }
        "round_float" => {
            let r = cooklang::quantity::verif_hooks::round_float_pub(f(&args[2]));
            println!("{}", json!({"value": r, "bits": format!("{:016x}", r.to_bits())}));
        }
        _ => {
            eprintln!("unknown command");
            std::process::exit(2);
        }
    }
}
