//! Native companion of the solver checks: dumps closed terms (tables) computed by the real code and
//! replays solver models against the real functions.  Linked against the scratch copy of /repo built
//! with `--cfg cooklang_verif`.
use cooklang::convert::{Converter, PhysicalQuantity, System};
use cooklang::quantity::{Number, Value};
use serde_json::json;

fn f(s: &str) -> f64 {
    if let Some(h) = s.strip_prefix("bits:") {
        f64::from_bits(u64::from_str_radix(h, 16).unwrap())
    } else {
        s.parse().unwrap()
    }
}

fn num_json(n: &Number) -> serde_json::Value {
    match *n {
        Number::Regular(v) => json!({"kind":"Regular","v":v, "bits": format!("{:016x}", v.to_bits())}),
        Number::Fraction { whole, num, den, err } => {
            json!({"kind":"Fraction","whole":whole,"num":num,"den":den,"err":err, "err_bits": format!("{:016x}", err.to_bits()),
                   "value": n.value(), "value_bits": format!("{:016x}", n.value().to_bits()), "display": format!("{}", n)})
        }
    }
}

fn val_json(v: &Value) -> serde_json::Value {
    match v {
        Value::Number(n) => json!({"kind":"Number","n":num_json(n)}),
        Value::Range { start, end } => json!({"kind":"Range","start":num_json(start),"end":num_json(end)}),
        Value::Text(t) => json!({"kind":"Text","t":t}),
    }
}

fn parse_number(a: &[String]) -> (Number, usize) {
    match a[0].as_str() {
        "R" => (Number::Regular(f(&a[1])), 2),
        "F" => (
            Number::Fraction { whole: a[1].parse().unwrap(), num: a[2].parse().unwrap(), den: a[3].parse().unwrap(), err: f(&a[4]) },
            5,
        ),
        _ => panic!("number"),
    }
}

fn main() {
    let args: Vec<String> = std::env::args().collect();
    let cmd = args.get(1).map(|s| s.as_str()).unwrap_or("");
    match cmd {
        "table" => {
            let t = cooklang::quantity::verif_hooks::fraction_table();
            let (ratio, denoms) = cooklang::quantity::verif_hooks::fraction_consts();
            let rows: Vec<_> = t.iter().map(|(k, (n, d))| json!([k, n, d])).collect();
            println!("{}", json!({"table": rows, "fix_ratio": ratio, "denoms": denoms}));
        }
        "units" => {
            let c = Converter::bundled();
            let mut units = vec![];
            for u in c.all_units() {
                units.push(json!({
                    "symbol": u.symbol(), "names": u.names.iter().map(|s| s.to_string()).collect::<Vec<_>>(),
                    "symbols": u.symbols.iter().map(|s| s.to_string()).collect::<Vec<_>>(),
                    "aliases": u.aliases.iter().map(|s| s.to_string()).collect::<Vec<_>>(),
                    "ratio": u.ratio, "difference": u.difference,
                    "quantity": u.physical_quantity.to_string(),
                    "system": u.system.map(|s| s.to_string()),
                    "is_best": c.is_best_unit(u),
                }));
            }
            let mut best = vec![];
            for q in [PhysicalQuantity::Volume, PhysicalQuantity::Mass, PhysicalQuantity::Length, PhysicalQuantity::Temperature, PhysicalQuantity::Time] {
                for s in [Some(System::Metric), Some(System::Imperial)] {
                    let l: Vec<_> = c.best_units(q, s).iter().map(|u| u.symbol().to_string()).collect();
                    best.push(json!({"quantity": q.to_string(), "system": s.map(|s| s.to_string()), "units": l}));
                }
            }
            println!("{}", json!({"units": units, "best": best, "default_system": c.default_system().to_string()}));
        }
        "new_approx" => {
            let r = Number::new_approx(f(&args[2]), f(&args[3]) as f32, args[4].parse().unwrap(), args[5].parse().unwrap());
            println!("{}", match r { Some(n) => num_json(&n), None => json!(null) });
        }
        "number_value" => {
            let (n, _) = parse_number(&args[2..]);
            println!("{}", json!({"value": n.value(), "bits": format!("{:016x}", n.value().to_bits()), "display": format!("{}", n)}));
        }
        "lookup" => {
            let r = cooklang::quantity::verif_hooks::fraction_lookup(f(&args[2]), args[3].parse().unwrap());
            println!("{}", json!(r));
        }
        "convert" => {
            // convert <value> <from-key> <to-key>   (raw affine kernel on the bundled units)
            let c = Converter::bundled();
            let a = c.find_unit(&args[3]).expect("from");
            let b = c.find_unit(&args[4]).expect("to");
            let r = std::panic::catch_unwind(|| cooklang::convert::verif_hooks::convert_raw(f(&args[2]), &a, &b));
            match r {
                Ok(v) => println!("{}", json!({"value": v, "bits": format!("{:016x}", v.to_bits())})),
                Err(_) => println!("{}", json!({"panic": true})),
            }
        }
        "convert_api" => {
            // convert_api N <v> <from> <to> | R <s> <e> <from> <to> | B N <v> <from> <metric|imperial>   (public Converter::convert)
            use cooklang::convert::{ConvertTo, ConvertUnit, ConvertValue};
            let c = Converter::bundled();
            let (val, k) = match args[2].as_str() {
                "N" => (ConvertValue::Number(f(&args[3])), 4),
                _ => (ConvertValue::Range(f(&args[3])..=f(&args[4])), 5),
            };
            let to = match args[k + 1].as_str() {
                "metric" => ConvertTo::Best(System::Metric),
                "imperial" => ConvertTo::Best(System::Imperial),
                "same" => ConvertTo::SameSystem,
                key => ConvertTo::Unit(ConvertUnit::Key(key)),
            };
            let r = std::panic::catch_unwind(|| c.convert(val, ConvertUnit::Key(&args[k]), to));
            match r {
                Ok(Ok((ConvertValue::Number(n), u))) => println!("{}", json!({"kind":"Number","n":n,"unit":u.symbol()})),
                Ok(Ok((ConvertValue::Range(r), u))) => println!("{}", json!({"kind":"Range","s":r.start(),"e":r.end(),"unit":u.symbol()})),
                Ok(Err(e)) => println!("{}", json!({"err": e.to_string()})),
                Err(_) => println!("{}", json!({"panic": true})),
            }
        }
        "convert_raw" => {
            // convert_raw <value> <ratio_a> <diff_a> <ratio_b> <diff_b>
            let c = Converter::bundled();
            let mut a = (*c.find_unit("g").unwrap()).clone();
            let mut b = a.clone();
            a.ratio = f(&args[3]);
            a.difference = f(&args[4]);
            b.ratio = f(&args[5]);
            b.difference = f(&args[6]);
            let v = cooklang::convert::verif_hooks::convert_raw(f(&args[2]), &a, &b);
            println!("{}", json!({"value": v, "bits": format!("{:016x}", v.to_bits())}));
        }
        "linear_scale" => {
            // linear_scale <factor> N <number> | R <number> <number> | T
            let factor = f(&args[2]);
            let v = match args[3].as_str() {
                "N" => Value::Number(parse_number(&args[4..]).0),
                "R" => {
                    let (s, k) = parse_number(&args[4..]);
                    let (e, _) = parse_number(&args[4 + k..]);
                    Value::Range { start: s, end: e }
                }
                _ => Value::Text("x".into()),
            };
            let r = cooklang::scale::verif_hooks::linear_scale_pub(v, factor);
            println!("{}", match r { Some(v) => val_json(&v), None => json!(null) });
        }
        "try_add" => {
            use cooklang::quantity::TryAdd;
            let mk = |a: &[String]| -> (Value, usize) {
                match a[0].as_str() {
                    "N" => { let (n, k) = parse_number(&a[1..]); (Value::Number(n), k + 1) }
                    "R" => { let (s, k) = parse_number(&a[1..]); let (e, k2) = parse_number(&a[1 + k..]); (Value::Range { start: s, end: e }, 1 + k + k2) }
                    _ => (Value::Text("x".into()), 1),
                }
            };
            let (a, k) = mk(&args[2..]);
            let (b, _) = mk(&args[2 + k..]);
            println!("{}", match a.try_add(&b) { Ok(v) => val_json(&v), Err(_) => json!(null) });
        }
        "time" => {
            // public accessor path
            use cooklang::metadata::CooklangValueExt;
            let v = serde_yaml::Value::String(args[2].clone());
            let conv = if args.get(3).map(|s| s == "bundled").unwrap_or(false) { Converter::bundled() } else { Converter::empty() };
            let r = std::panic::catch_unwind(|| v.as_minutes(&conv));
            match r {
                Ok(m) => println!("{}", json!({"minutes": m})),
                Err(_) => println!("{}", json!({"panic": true})),
            }
        }
        "hard_units" => {
            let r = cooklang::metadata::verif_hooks::hard_coded_units(f(&args[2]), &args[3]);
            println!("{}", json!(r));
        }
        "round_float" => {
            let r = cooklang::quantity::verif_hooks::round_float_pub(f(&args[2]));
            println!("{}", json!({"value": r, "bits": format!("{:016x}", r.to_bits())}));
        }
        _ => {
            eprintln!("unknown command");
            std::process::exit(2);
        }
    }
}
