#!/usr/bin/env python3
"""control.py <name> <ID> [<ID>...] : apply the behaviour-preserving refactoring seeded/controls/<name>/patch.diff to /repo,
run the quick checks, undo it, record the outcome in its meta.json (a control must end in exit 0: no alarm, no lost verdict)"""
import sys, os, json, subprocess, time
VERIF = os.path.dirname(os.path.dirname(os.path.abspath(__file__)))
name, props = sys.argv[1], sys.argv[2:]
d = os.path.join(VERIF, "seeded", "controls", name)
mp = os.path.join(d, "meta.json")
meta = json.load(open(mp)) if os.path.isfile(mp) else {}
if subprocess.run(["git", "-C", "/repo", "diff", "--quiet"]).returncode != 0:
    print("repo dirty"); sys.exit(9)
subprocess.run(["git", "-C", "/repo", "apply", os.path.join(d, "patch.diff")], check=True)
try:
    for prop in props:
        t0 = time.time()
        p = subprocess.run([os.path.join(VERIF, "check"), prop], cwd=VERIF, stdout=subprocess.PIPE, stderr=subprocess.STDOUT, text=True)
        lines = [l for l in p.stdout.splitlines() if l.startswith(("VIOLATION", "  what:", "INCONCLUSIVE", "OK property"))]
        meta.setdefault("verif_runs", {})[prop] = dict(exit=p.returncode, wall_s=round(time.time() - t0), lines=[l[:300] for l in lines[:5]], at=time.strftime("%Y-%m-%dT%H:%M:%S"))
        print(name, prop, "exit", p.returncode, {0: "pass", 1: "FALSE ALARM", 2: "verdict lost"}.get(p.returncode, "?"))
        for l in lines[:3]:
            if p.returncode != 0:
                print("   ", l[:250])
finally:
    subprocess.run(["git", "-C", "/repo", "checkout", "--", "."], check=True)
json.dump(meta, open(mp, "w"), indent=1)
