#!/bin/bash
# confirm_seeds.sh <outdir> <seed-dir>... : verify each seeded change in a scratch worktree of /repo
#  (1) patch applies, (2) existing suite passes with it, (3) demo fails with it, (4) demo passes without it
out=$1; shift
wt=/tmp/wt-confirm
git -C /repo worktree remove --force $wt 2>/dev/null
git -C /repo worktree add --detach $wt HEAD -q
cd $wt
for d in "$@"; do
  id=$(basename $d)
  res="$id:"
  git checkout -q -- . ; rm -f tests/seed_demo.rs
  if git apply --check $d/patch.diff 2>/dev/null; then git apply $d/patch.diff; res="$res applies"; else res="$res PATCH-DOES-NOT-APPLY"; echo "$res" | tee -a $out; continue; fi
  if cargo test --workspace --offline >/tmp/confirm-$id-suite.log 2>&1; then res="$res suite-pass"; else res="$res SUITE-FAILS"; fi
  cp $d/demo.rs tests/seed_demo.rs
  if cargo test --offline --test seed_demo >/tmp/confirm-$id-demo-mut.log 2>&1; then res="$res DEMO-PASSES-WITH-CHANGE"; else res="$res demo-fails-with-change"; fi
  git checkout -q -- .
  if cargo test --offline --test seed_demo >/tmp/confirm-$id-demo-orig.log 2>&1; then res="$res demo-passes-on-head"; else res="$res DEMO-FAILS-ON-HEAD"; fi
  rm -f tests/seed_demo.rs
  echo "$res" | tee -a $out
done
cd /; git -C /repo worktree remove --force $wt
