#!/bin/bash
# usage: try_mutant.sh <ID> '<sed-expr>' <file>   - apply a sed mutation to /repo, run the check, restore
id=$1; expr=$2; file=$3; shift 3
cd /repo && git diff --quiet || { echo "repo dirty"; exit 9; }
sed -i "$expr" "$file"
git diff --stat | tail -1
if git diff --quiet; then echo "MUTATION DID NOT APPLY"; exit 8; fi
cd /verif && ./check $id "$@" 2>&1 | grep -E "VIOLATION|INCONCLUSIVE|KNOWN|OK property|what:|Traceback|Error" | head -12
echo "exit=${PIPESTATUS[0]}"
git -C /repo checkout -- .
