#!/usr/bin/env python3
"""seed.py import <src-dir> <name>     copy an independently produced breaking change into /verif/seeded/<name>/
   seed.py run <name> [<ID>]          apply it to /repo, run ./check <ID>, undo it, record the outcome in meta.json"""
import sys, os, json, shutil, subprocess, time
VERIF = os.path.dirname(os.path.dirname(os.path.abspath(__file__)))


def main():
    cmd = sys.argv[1]
    if cmd == "import":
        src, name = sys.argv[2], sys.argv[3]
        dst = os.path.join(VERIF, "seeded", name)
        os.makedirs(dst, exist_ok=True)
        for f in ("patch.diff", "demo.rs", "meta.json"):
            shutil.copy(os.path.join(src, f), os.path.join(dst, f))
        return
    if cmd == "run":
        name = sys.argv[2]
        d = os.path.join(VERIF, "seeded", name)
        meta = json.load(open(os.path.join(d, "meta.json")))
        prop = sys.argv[3] if len(sys.argv) > 3 else meta["property"]
        if subprocess.run(["git", "-C", "/repo", "diff", "--quiet"]).returncode != 0:
            print("repo dirty")
            sys.exit(9)
        subprocess.run(["git", "-C", "/repo", "apply", os.path.join(d, "patch.diff")], check=True)
        t0 = time.time()
        try:
            p = subprocess.run([os.path.join(VERIF, "check"), prop], cwd=VERIF, stdout=subprocess.PIPE, stderr=subprocess.STDOUT, text=True)
        finally:
            subprocess.run(["git", "-C", "/repo", "checkout", "--", "."], check=True)
        lines = [l for l in p.stdout.splitlines() if l.startswith(("VIOLATION", "  what:", "INCONCLUSIVE", "OK property", "KNOWN-FINDING"))]
        res = dict(check="./check %s --tier quick" % prop, exit=p.returncode, wall_s=round(time.time() - t0),
                   detected=p.returncode == 1, lines=[l[:400] for l in lines[:8]], at=time.strftime("%Y-%m-%dT%H:%M:%S"))
        meta.setdefault("verif_runs", {})[prop] = res
        meta["confirmed"] = meta.get("confirmed") or "patch applies to HEAD; existing suite passes with it; demo fails with it and passes without (tools/confirm_seeds.sh)"
        json.dump(meta, open(os.path.join(d, "meta.json"), "w"), indent=1)
        print(name, prop, "exit", p.returncode, "detected" if p.returncode == 1 else "NOT DETECTED")
        for l in lines[:4]:
            print("   ", l[:300])


main()
