#!/bin/bash
# confirm_seeds_bindings.sh <outfile> <seed-dir>... : like confirm_seeds.sh for changes whose demo is an in-crate
# `#[cfg(test)] mod seed_demo` snippet of the bindings crate (appended to bindings/src/lib.rs in a scratch worktree)
out=$1; shift
wt=/tmp/wt-confirm-b
git -C /repo worktree remove --force $wt 2>/dev/null
git -C /repo worktree add --detach $wt HEAD -q
cd $wt
for d in "$@"; do
  id=$(basename $d)
  res="$id:"
  git checkout -q -- .
  if git apply --check $d/patch.diff 2>/dev/null; then git apply $d/patch.diff; res="$res applies"; else res="$res PATCH-DOES-NOT-APPLY"; echo "$res" | tee -a $out; continue; fi
  if cargo test --workspace --offline >/tmp/confirm-$id-suite.log 2>&1; then res="$res suite-pass"; else res="$res SUITE-FAILS"; fi
  cat $d/demo.rs >> bindings/src/lib.rs
  if cargo test --offline -p cooklang-bindings seed_demo >/tmp/confirm-$id-demo-mut.log 2>&1; then res="$res DEMO-PASSES-WITH-CHANGE"; else res="$res demo-fails-with-change"; fi
  git checkout -q -- .
  cat $d/demo.rs >> bindings/src/lib.rs
  if cargo test --offline -p cooklang-bindings seed_demo >/tmp/confirm-$id-demo-orig.log 2>&1; then res="$res demo-passes-on-head"; else res="$res DEMO-FAILS-ON-HEAD"; fi
  git checkout -q -- .
  echo "$res" | tee -a $out
done
cd /; git -C /repo worktree remove --force $wt
