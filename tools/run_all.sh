#!/bin/bash
# run every registered quick check sequentially against /repo; summary on stdout
cd /verif
for id in "$@"; do
  s=$(date +%s)
  ./check $id > logs/all-$id.log 2>&1
  rc=$?
  echo "$id exit=$rc $(( $(date +%s) - s ))s $(tail -1 logs/all-$id.log | cut -c1-150)"
done
